"""C03: reported content equals the infoset; SAX, SAX2, DOM, DOMLS (with/without filter) and progressive
parse agree.  Oracles: (1) expected events computed from the generating infoset (xmlgen), cross-checked
by pyexpat on XML 1.0 documents (disagreement model/expat => case discarded and counted);
(2) pairwise equality between APIs/scanners of the same build."""
import collections, pyexpat
from .. import core, build, parsecmp as pc
from ..gen import xmlgen

PID = 'C03'

# (name, case options, projection capabilities)
CONFIGS = [
    ('sax1', dict(api='sax1'), dict(ns=False, keep_cm=False, keep_dt=False)),
    ('sax2', dict(api='sax2'), dict(keep_cd=True, keep_er=True)),
    ('sax2-dg', dict(api='sax2', scanner='DG'), dict(keep_cd=True, keep_er=True)),
    ('dom', dict(api='dom'), dict(keep_cd=True)),
    ('dom-eref', dict(api='dom', eref=1), dict(keep_cd=True, keep_er=True)),
    ('domls', dict(api='domls'), dict(keep_cd=True)),
    ('domls-filter', dict(api='domls', filter='pass'), dict(keep_cd=True)),
    ('prog', dict(api='prog'), dict(keep_cd=True, keep_er=True)),
    ('progdom', dict(api='progdom'), dict(keep_cd=True)),
    # scanners that skip the DOCTYPE: only DOCTYPE-free documents
    ('sax2-wf', dict(api='sax2', scanner='WF'), dict(keep_cd=True)),
    ('sax2-sg', dict(api='sax2', scanner='SG'), dict(keep_cd=True)),
    ('dom-wf', dict(api='dom', scanner='WF'), dict(keep_cd=True)),
]
# pairs that must be *identical* at the richest common level (raw event lists)
IDENT_PAIRS = [('sax2', 'prog'), ('dom', 'progdom'), ('dom', 'domls'), ('domls', 'domls-filter'), ('sax2', 'sax2-dg'), ('dom', 'dom-wf'), ('sax2-wf', 'sax2-sg')]


def expat_events(data, ns, ents=()):
    """pyexpat's view in the projected common form (values only; namespaces off)"""
    ev = []
    p = pyexpat.ParserCreate()
    p.SetParamEntityParsing(pyexpat.XML_PARAM_ENTITY_PARSING_ALWAYS)
    files = dict((k.split('/')[-1], v) for k, v in ents)

    def ext(context, base, sysid, pubid):
        sub = p.ExternalEntityParserCreate(context)
        sub.Parse(files.get(sysid, b''), True)
        return 1
    p.ExternalEntityRefHandler = ext
    p.buffer_text = False
    p.ordered_attributes = False

    def text(s):
        if ev and ev[-1][0] == 'CH':
            ev[-1] = ('CH', ev[-1][1] + s)
        else:
            ev.append(('CH', s))
    p.StartElementHandler = lambda n, a: ev.append(('SE', n, tuple(sorted((k, v) for k, v in a.items() if not (k == 'xmlns' or k.startswith('xmlns:'))))))
    p.EndElementHandler = lambda n: ev.append(('EE', n))
    p.CharacterDataHandler = text
    p.CommentHandler = lambda s: ev.append(('CM', s))
    p.ProcessingInstructionHandler = lambda t, d: ev.append(('PI', t, d))
    p.StartDoctypeDeclHandler = lambda n, s, pb, h: ev.append(('XDT',))
    p.EndDoctypeDeclHandler = lambda: ev.append(('XEDT',))
    p.Parse(data, True)
    # drop comments/PIs inside the DTD
    out = []
    ind = False
    for e in ev:
        if e[0] == 'XDT':
            ind = True
        elif e[0] == 'XEDT':
            ind = False
        elif ind and e[0] in ('CM', 'PI'):
            pass
        else:
            out.append(e)
    return out


def line_of(text, pos, version):
    """line number (1-based) of character offset pos under the line-end rules of the version"""
    t = text[:pos]
    t = t.replace('\r\n', '\n')
    if version == '1.1':
        t = t.replace('\r\u0085', '\n').replace('\u0085', '\n').replace(' ', '\n')
    t = t.replace('\r', '\n')
    return t.count('\n') + 1


class _PinCx:
    """minimal stand-in for xmlgen.Ctx for hand-written regression documents"""
    def __init__(self, ns, tags):
        self.ns = ns
        self.version = '1.0'
        self.tags = set(tags)
        self.entity_order = []
        self.attdecl_order = []
        self.attdecls = {}
        self.notations = []
        self.unparsed = []
        self.external = False


def _se(q, attrs=(), uri=None):
    return ('SE', q, uri, q.split(':')[-1], tuple(attrs), ())


def pinned():
    """witnesses of known/fixed findings, replayed on every run (expected events written by hand)"""
    P = []

    def add(text, ns, events, tags, atypes=None):
        g = {'bytes': text.encode(), 'text': text, 'cx': _PinCx(ns, tags), 'doc': {'doctype': 'DOCTYPE' in text, 'root': {'qname': 'a'}},
             'spans': [], 'encoding': 'UTF-8', 'expected': [('SD',)] + events + [('ED',)], 'atypes': atypes or {}, 'pinned': True}
        P.append(g)
    add('<!DOCTYPE a><a/>', False, [('DT', 'a', None, None), ('EDT',), _se('a'), ('EE', 'a', None, 'a', ())], ['doctype-no-subset', 'dtd'])
    add('<!DOCTYPE a [<!ATTLIST a e (v0|v1) #IMPLIED n NMTOKEN #IMPLIED>]><a e=" v0  " n=" x "/>', False,
        [('DT', 'a', None, None), ('EDT',), _se('a', [('e', None, 'e', 'v0', True, 'ENUM'), ('n', None, 'n', 'x', True, 'NMTOKEN')]), ('EE', 'a', None, 'a', ())],
        ['dtd', 'tokenized-extra-space'], {('a', 'e'): 'ENUM', ('a', 'n'): 'NMTOKEN'})
    add("<a xmlns='urn:x'><b>t</b></a>", True,
        [('SE', 'a', 'urn:x', 'a', (('xmlns', xmlgen.XMLNS_NS, 'xmlns', 'urn:x', True, 'CDATA'),), (('', 'urn:x'),)),
         ('SE', 'b', 'urn:x', 'b', (), ()), ('CH', 't'), ('EE', 'b', 'urn:x', 'b', ()), ('EE', 'a', 'urn:x', 'a', ())], ['ns'])
    return P


def gen_docs(ck, n, tag):
    docs = []
    if tag == 0:
        docs += pinned()
    for i in range(n):
        r = core.rng(ck.seed, PID, tag, i)
        big = (i % 97 == 0)
        g = xmlgen.make(r, max_depth=5 if big else 4, max_children=8 if big else 4)
        docs.append(g)
    return docs


def model_vs(ck, name, g, st, caps, stats):
    cx = g['cx']
    exp_all = g['expected']
    kw = dict(caps)
    if 'ns' not in kw:
        kw['ns'] = cx.ns
    if name.endswith('-sg') or name.endswith('-wf'):
        pass
    exp = pc.project(exp_all, **kw)
    obs = pc.project(st.events, **kw)
    d = pc.first_diff(exp, obs)
    if d is None:
        return True
    i, e, o = d
    # known deviation: SAX2 reports no startDTD for a DOCTYPE without internal or external subset
    cls = (e[0] if e else 'END') + '/' + (o[0] if o else 'END')
    if e and e[0] == 'DT' and g['doc']['doctype'] and 'doctype-no-subset' in cx.tags and name in ('sax2', 'prog', 'sax2-dg'):
        key = 'C03:model:sax2:DT-missing:doctype-no-subset'
    elif e and o and e[0] == 'SE' and o[0] == 'SE' and e[1:-1] == o[1:-1]:
        # same element, attribute lists differ: classify by attribute type of the first differing attribute
        ea, oa = dict((a[0], a) for a in e[-1]), dict((a[0], a) for a in o[-1])
        bad = sorted(k for k in set(ea) | set(oa) if ea.get(k) != oa.get(k))
        ty = g['atypes'].get((e[1], bad[0]), 'CDATA') if bad else '?'
        what = 'missing' if bad and bad[0] not in oa else 'extra' if bad and bad[0] not in ea else 'value'
        key = 'C03:model:%s:attr-%s:%s' % (name, what, ty)
    else:
        key = 'C03:model:%s:%s' % (name, cls)
    ck.violation(key, 'events differ from the infoset (%s): expected %r observed %r' % (name, e, o),
                 {'config': name, 'doc_hex': g['bytes'].hex(), 'text': g['text'], 'tags': sorted(cx.tags), 'index': i, 'expected': repr(e), 'observed': repr(o)})
    return False


def run(tier):
    ck = core.Check(PID, tier)
    binary = build.ensure('asan', parts=['parse', 'domdump'])
    n = 2500 if tier == 'quick' else 40000
    rounds = 1 if tier == 'quick' else 8
    per = n // rounds
    stats = collections.Counter()
    tagc = collections.Counter()
    for rd in range(rounds):
        docs = gen_docs(ck, per, rd)
        cases = []
        for i, g in enumerate(docs):
            cx = g['cx']
            if not g.get('pinned'):
                g['expected'] = xmlgen.expected_events(cx, g['doc'])
                g['atypes'] = {}
                for en, decl in cx.attdecls.items():
                    for an, d in decl.items():
                        g['atypes'][(en, an)] = d['type']
            dt = g['doc']['doctype']
            if dt and not g.get('pinned') and not cx.external and not (cx.entity_order or cx.attdecl_order or cx.notations or cx.unparsed) and '[' not in g['text'].split('<' + g['doc']['root']['qname'])[0].split('<!DOCTYPE')[-1]:
                cx.tags.add('doctype-no-subset')
            # second opinion on values
            g['expat_ok'] = None
            if cx.version == '1.0':
                try:
                    xe = expat_events(g['bytes'], False, g.get('ents', ()))
                    me = [e for e in pc.project(g['expected'], ns=False, keep_dt=False)]
                    g['expat_ok'] = (xe == me)
                    if not g['expat_ok']:
                        stats['discarded_model_vs_expat'] += 1
                        ck.cov.setdefault('discard_samples', [])
                        if len(ck.cov['discard_samples']) < 3:
                            ck.cov['discard_samples'].append({'text': g['text'][:400], 'diff': repr(pc.first_diff(me, xe))[:400]})
                except pyexpat.ExpatError as e:
                    g['expat_ok'] = False
                    stats['discarded_expat_rejects'] += 1
            for name, opts, caps in CONFIGS:
                if (name.endswith('-wf') or name.endswith('-sg')) and dt:
                    continue
                o = dict(opts)
                o['ns'] = 1 if cx.ns else 0
                if name.endswith('-sg') and not cx.ns:
                    continue    # SG always processes namespaces
                cases.append(core.Case('r%dd%d.%s' % (rd, i, name), 'parse', o, ents=g.get('ents', ()), meta={'doc': i, 'cfg': name}).doc(g['bytes']))
        recs = core.run_cases(binary, cases, tag='c03')
        byd = collections.defaultdict(dict)
        for c in cases:
            r = recs.get(c.id)
            if r is None or not r.complete or r.crash or r.hang:
                if r is not None:
                    ck.crash_violation(r, c, 'C03:')
                continue
            byd[c.meta['doc']][c.meta['cfg']] = pc.parse_record(r)[0]
        capsof = dict((n_, c_) for n_, _, c_ in CONFIGS)
        for i, g in enumerate(docs):
            if g['expat_ok'] is False:
                continue
            cx = g['cx']
            sts = byd.get(i, {})
            okdoc = True
            for name, st in sts.items():
                ck.evaluations += 1
                stats['runs_' + name] += 1
                if st.verdict() != 'none':
                    code = st.errs[0][2] if st.errs else 0
                    ck.violation('C03:rejected:%s:%s:%s' % (name, st.verdict(), code), 'well-formed generated document reported %s' % st.verdict(),
                                 {'config': name, 'doc_hex': g['bytes'].hex(), 'text': g['text'], 'errs': st.errs[:3], 'exc': st.exc})
                    okdoc = False
                    continue
                if not model_vs(ck, name, g, st, capsof[name], stats):
                    okdoc = False
                stats['events_compared'] += len(st.events)
            # identical pairs
            for a, b in IDENT_PAIRS:
                if a in sts and b in sts and sts[a].verdict() == 'none' and sts[b].verdict() == 'none':
                    stats['pairs_compared'] += 1
                    ea = [e for e in sts[a].events]
                    eb = [e for e in sts[b].events]
                    if a.startswith('domls') or b.startswith('domls') or 'wf' in b or 'sg' in b or 'dg' in b:
                        pass
                    d = pc.first_diff(ea, eb)
                    if d is not None:
                        ck.violation('C03:pair:%s/%s:%s' % (a, b, (d[1][0] if d[1] else 'END') + '/' + (d[2][0] if d[2] else 'END')),
                                     'two APIs/scanners report different content for the same document',
                                     {'pair': [a, b], 'doc_hex': g['bytes'].hex(), 'text': g['text'], 'a': repr(d[1]), 'b': repr(d[2])})
                        okdoc = False
            # SAX2 vs DOM with entity reference nodes: same structure incl. entity boundaries and CDATA
            if 'sax2' in sts and 'dom-eref' in sts and sts['sax2'].verdict() == 'none' and sts['dom-eref'].verdict() == 'none':
                pa = pc.project(sts['sax2'].events, ns=cx.ns, keep_cd=True, keep_er=True)
                pb = pc.project(sts['dom-eref'].events, ns=cx.ns, keep_cd=True, keep_er=True)
                stats['pairs_compared'] += 1
                d = pc.first_diff(pa, pb)
                if d is not None and not ('doctype-no-subset' in cx.tags and d[2] and d[2][0] == 'DT'):
                    ck.violation('C03:pair:sax2/dom-eref:%s' % ((d[1][0] if d[1] else 'END') + '/' + (d[2][0] if d[2] else 'END')),
                                 'SAX2 and DOM (entity reference nodes on) disagree', {'doc_hex': g['bytes'].hex(), 'text': g['text'], 'a': repr(d[1]), 'b': repr(d[2])})
                    okdoc = False
            # line numbers at element starts (document entity only)
            for name in ('sax1', 'sax2'):
                st = sts.get(name)
                if not st or st.verdict() != 'none':
                    continue
                locs = [e for e in st.events if e[0] == 'LOC']
                ses = [e for e in g['expected'] if e[0] == 'SE']
                if len(locs) == len(ses) and not cx.entity_order:
                    # without entities every element lies in the document entity, in text order
                    ends = sorted(e for k, s, e in g['spans'] if k in ('starttag', 'emptytag'))
                    if len(ends) == len(locs):
                        for (k, ln, col), pos in zip(locs, ends):
                            stats['lines_checked'] += 1
                            el = line_of(g['text'], pos, cx.version)
                            if ln != el:
                                ck.violation('C03:line:%s' % name, 'line number at element start: expected %d observed %d' % (el, ln),
                                             {'config': name, 'doc_hex': g['bytes'].hex(), 'text': g['text'], 'pos': pos})
                                okdoc = False
                                break
            if okdoc and len(g['expected']) >= 5:
                ck.add_distinct(core.h(g['bytes']))
                for t in cx.tags:
                    tagc[t] += 1
            if len(ck.samples) < 3 and okdoc and 40 < len(g['text']) < 500:
                ck.sample({'text': g['text'], 'encoding': g['encoding'], 'tags': sorted(cx.tags), 'expected_events_head': [repr(e) for e in pc.project(g['expected'], ns=cx.ns)[:8]],
                           'configs_run': sorted(sts)})
    ck.rule = ('documents rendered from random infosets by xmlgen (every lexical freedom listed in coverage.lexical_tags); a document is non-trivial '
               'when its expected dump has >= 5 events and the model was confirmed by pyexpat (XML 1.0) or is XML 1.1; distinct by document bytes; '
               'evaluations = (document, API/scanner configuration) runs compared with the model')
    ck.cov['stats'] = dict(stats)
    ck.cov['lexical_tags'] = dict(tagc)
    ck.cov['configs'] = [c[0] for c in CONFIGS]
    ck.assumptions = ['pyexpat (XML 1.0 4th edition) is used only to discard documents on which the model is uncertain',
                      'ignorable whitespace and characters are merged for comparison with the model (validation off)',
                      'names drawn from the intersection of XML 1.0 4th and 5th edition name characters']
    need = ['external-subset', 'conditional-include', 'cdata', 'entity-ref', 'entity-in-attr', 'attr-default', 'charref', 'ns-shadow', 'enc-UTF-16LE', 'enc-ISO-8859-1', 'v1.1', 'pe-decl', 'attr-ws-literal']
    for t in need:
        if tagc[t] == 0:
            ck.inconclusive.append('lexical freedom never exercised: ' + t)
    if stats['discarded_model_vs_expat'] + stats['discarded_expat_rejects'] > 0.05 * max(1, n):
        ck.inconclusive.append('more than 5% of documents discarded as oracle-uncertain')
    return ck.finish()


def replay(j):
    w = j['witness']
    binary = build.ensure('asan', parts=['parse', 'domdump'])
    data = bytes.fromhex(w['doc_hex'])
    names = [w['config']] if 'config' in w else w.get('pair', ['sax2', 'dom-eref'])
    cases = []
    for name, opts, caps in CONFIGS:
        if name in names:
            cases.append(core.Case(name, 'parse', dict(opts), meta={}).doc(data))
    recs = core.run_cases(binary, cases, shards=1)
    for c in cases:
        print('==', c.id)
        print('\n'.join(recs[c.id].lines[:200]))
    print('expected/observed recorded in witness:', w.get('expected'), w.get('observed'), w.get('a'), w.get('b'))
    return 1
