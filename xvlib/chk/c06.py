"""C06: namespace processing.  Oracles: the scope stack kept by the generator (expected uri/local/prefix of
every element and attribute; expected prefix-mapping events; expected answers of the DOM lookup methods on
every element, its first attribute and its first non-element child), plus the namespace mutants of xmlmut for
the error side."""
import collections
from .. import core, build, parsecmp as pc
from ..gen import xmlgen, xmlmut

PID = 'C06'
XMLNS = 'http://www.w3.org/2000/xmlns/'
NS_OPS = [k for k, v in xmlmut.OPS.items() if v['ns_only']]


def none_if_empty(x):
    return None if x in (None, '') else x


def walk_model(cx, doc):
    """yield (element dict, in-scope map, default ns) in document order incl. entity content"""
    out = []

    def content(nodes, scope):
        for n in nodes:
            if n[0] == 'el':
                element(n[1], scope)
            elif n[0] == 'er':
                content(cx.entities[n[1]]['nodes'], scope)

    def element(el, scope):
        ins = dict(scope)
        for p, u in el['nsdecls']:
            if u == '':
                ins.pop(p, None)
            else:
                ins[p] = u
        out.append((el, ins))
        content(el['children'], ins)
    element(doc['root'], {'xml': xmlgen.XML_NS})
    return out


def check_prefix_mappings(events):
    """SAX2: every startElement is preceded by exactly the SPM events of its declarations, every endElement
    followed by the matching EPM events; globally balanced.  Returns (ok, message, per-element list of SPM multisets)"""
    stack = []
    pend = []
    per = []
    i = 0
    n = len(events)
    while i < n:
        e = events[i]
        if e[0] == 'SPM':
            pend.append((e[1], e[2]))
        elif e[0] == 'SE':
            per.append(sorted(pend))
            stack.append(sorted(p for p, u in pend))
            pend = []
        elif e[0] == 'EE':
            if pend:
                return False, 'startPrefixMapping not followed by startElement', per
            want = stack.pop() if stack else None
            got = []
            j = i + 1
            while j < n and events[j][0] == 'EPM':
                got.append(events[j][1])
                j += 1
            if want is None or sorted(got) != want:
                return False, 'endPrefixMapping set %r after </%s> does not match the mappings started for it %r' % (sorted(got), e[1], want), per
            i = j
            continue
        elif e[0] == 'EPM':
            return False, 'endPrefixMapping outside an element end', per
        elif pend and e[0] not in ('LOC',):
            return False, 'startPrefixMapping followed by %s' % e[0], per
        i += 1
    if stack or pend:
        return False, 'unbalanced at end of document', per
    return True, '', per


def run(tier):
    ck = core.Check(PID, tier)
    binary = build.ensure('asan', parts=['parse', 'domdump'])
    n = 1000 if tier == 'quick' else 16000
    rounds = 1 if tier == 'quick' else 10
    stats = collections.Counter()
    tagc = collections.Counter()
    opstat = collections.defaultdict(collections.Counter)
    for rd in range(rounds):
        cases = []
        info = {}
        docs = []
        for i in range(n // rounds):
            r = core.rng(ck.seed, PID, rd, i)
            wide = (i % 50 == 0)
            g = xmlgen.make(r, ns=True, max_children=6 if wide else 4)
            cx = g['cx']
            if wide:
                # many declarations on one element (prefix map growth)
                root = g['doc']['root']
                have = set(p for p, u in root['nsdecls'])
                extra = [('w%d' % k, 'urn:w:%d' % (k % 7)) for k in range(r.randint(17, 40)) if ('w%d' % k) not in have]
                root['nsdecls'] += extra
                cx.ext_files.clear()          # the re-rendering writes the external subset / external entities again
                rd2 = xmlgen.Renderer(cx, g['doc'])
                text = rd2.document({'UTF-8': None, 'UTF-8-BOM': 'UTF-8', 'UTF-16LE': 'UTF-16', 'UTF-16BE': 'UTF-16', 'ISO-8859-1': 'ISO-8859-1'}[g['encoding']])
                g['text'] = text
                g['spans'] = rd2.spans
                g['bytes'] = g['bom'] + text.encode(g['codec'], 'surrogatepass')
                g['ents'] = [('file:///xv/' + k, v) for k, v in cx.ext_files.items()]
                cx.tags.add('many-decls')
            g['model'] = walk_model(cx, g['doc'])
            prefixes = sorted(set(p for el, ins in g['model'] for p in ins if p not in ('xml',)) | {'zznone'})
            uris = sorted(set(u for el, ins in g['model'] for u in ins.values() if u != xmlgen.XML_NS) | {'urn:zz:none'})
            g['lkp'] = [''] + [p for p in prefixes if p != ''][:8]
            g['lku'] = uris[:6] + ['']
            docs.append(g)
            base = 'r%dd%d' % (rd, i)
            for name, o in (('sax2', dict(api='sax2', nspfx=0)), ('sax2p', dict(api='sax2', nspfx=1)), ('sax2-dg', dict(api='sax2', scanner='DG')),
                            ('dom', dict(api='dom', lookups=1, lkp=','.join(g['lkp']), lku='|'.join(g['lku']))),
                            ('domls', dict(api='domls'))):
                cases.append(core.Case(base + '.' + name, 'parse', dict(o, ns=1), ents=g['ents']).doc(g['bytes']))
                info[base + '.' + name] = ('wf', i, name)
            if not g['doc']['doctype']:
                for name, o in (('sax2-wf', dict(api='sax2', scanner='WF')), ('sax2-sg', dict(api='sax2', scanner='SG')), ('dom-sg', dict(api='dom', scanner='SG'))):
                    cases.append(core.Case(base + '.' + name, 'parse', dict(o, ns=1)).doc(g['bytes']))
                    info[base + '.' + name] = ('wf', i, name)
            # error side
            ops = list(NS_OPS)
            r.shuffle(ops)
            for opn in ops[:3]:
                m = xmlmut.mutate(g, r, opn)
                if not m:
                    continue
                cfgs = [('sax2', dict(api='sax2')), ('dom', dict(api='dom')), ('sax1', dict(api='sax1')), ('sax2-dg', dict(api='sax2', scanner='DG'))]
                if not g['doc']['doctype']:
                    cfgs += [('sax2-wf', dict(api='sax2', scanner='WF')), ('sax2-sg', dict(api='sax2', scanner='SG'))]
                r.shuffle(cfgs)
                for name, o in cfgs[:3]:
                    k = base + '.m.' + opn + '.' + name
                    cases.append(core.Case(k, 'parse', dict(o, ns=1, dump=0), ents=g['ents']).doc(m['bytes']))
                    info[k] = ('mut', i, name, opn, m)
        recs = core.run_cases(binary, cases, tag='c06')
        for c in cases:
            inf = info[c.id]
            r_ = recs.get(c.id)
            if r_ is None or not r_.complete or r_.crash or r_.hang:
                if r_ is not None:
                    ck.crash_violation(r_, c, 'C06:')
                continue
            st = pc.parse_record(r_)[0]
            ck.evaluations += 1
            g = docs[inf[1]]
            cx = g['cx']
            name = inf[2]
            if inf[0] == 'mut':
                opn = inf[3]
                v = st.verdict()
                opstat[opn][name] += 1
                if not (v == 'fatal' or v.startswith('exception:')):
                    ck.violation('C06:accepted:%s' % opn, 'namespace constraint violation (%s) not reported as fatal (config %s)' % (opn, name),
                                 {'case': c.to_json(), 'text': inf[4]['text']})
                else:
                    ck.add_distinct(core.h(c.id))
                continue
            if st.verdict() != 'none':
                ck.violation('C06:rejected:%s:%s' % (name, st.errs[0][2] if st.errs else st.verdict()), 'namespace-well-formed document rejected', {'case': c.to_json(), 'text': g['text'], 'errs': st.errs[:3]})
                continue
            model = g['model']
            ses = [e for e in st.events if e[0] == 'SE']
            ees = [e for e in st.events if e[0] == 'EE']
            ok = True
            # ---- (uri, local, qname) of elements and attributes
            if len(ses) != len(model):
                ck.violation('C06:element-count:%s' % name, 'number of elements differs from the model', {'case': c.to_json(), 'text': g['text']})
                continue
            for (el, ins), se in zip(model, ses):
                uri = ins.get(el['prefix']) if el['prefix'] else ins.get('')
                stats['names_checked'] += 1
                if (se[1], none_if_empty(se[2]), se[3]) != (el['qname'], uri, el['local']):
                    ck.violation('C06:element-name:%s' % name, 'element reported as %r, in-scope declarations imply %r' % (se[1:4], (el['qname'], uri, el['local'])),
                                 {'case': c.to_json(), 'text': g['text']})
                    ok = False
                    break
                exp_attrs = {}
                for a in el['attrs']:
                    exp_attrs[a['qname']] = (ins.get(a['prefix']) if a['prefix'] else None, a['local'])
                obs_attrs = {}
                for a in se[4]:
                    if a[0] == 'xmlns' or a[0].startswith('xmlns:'):
                        if name in ('dom', 'domls', 'dom-sg'):
                            stats['xmlns_attr_uri_checked'] += 1
                            if a[1] != XMLNS:
                                ck.violation('C06:xmlns-attr-uri:%s' % name, 'DOM namespace declaration attribute %s has namespaceURI %r' % (a[0], a[1]), {'case': c.to_json(), 'text': g['text']})
                                ok = False
                        elif name != 'sax2p':
                            ck.violation('C06:xmlns-attr-reported:%s' % name, 'namespace declaration reported as attribute although namespace-prefixes is off', {'case': c.to_json(), 'text': g['text']})
                            ok = False
                        continue
                    obs_attrs[a[0]] = (none_if_empty(a[1]), a[2])
                if name == 'sax2p':
                    decl_qn = sorted(('xmlns:' + p) if p else 'xmlns' for p, u in el['nsdecls'])
                    got_qn = sorted(a[0] for a in se[4] if a[0] == 'xmlns' or a[0].startswith('xmlns:'))
                    if decl_qn != got_qn:
                        ck.violation('C06:nspfx-attrs', 'with namespace-prefixes on the declarations %r must appear as attributes, got %r' % (decl_qn, got_qn), {'case': c.to_json(), 'text': g['text']})
                        ok = False
                if obs_attrs != exp_attrs:
                    bad = sorted(k for k in set(obs_attrs) | set(exp_attrs) if obs_attrs.get(k) != exp_attrs.get(k))
                    ck.violation('C06:attr-name:%s' % name, 'attribute %s reported as %r, declarations imply %r' % (bad[0], obs_attrs.get(bad[0]), exp_attrs.get(bad[0])),
                                 {'case': c.to_json(), 'text': g['text']})
                    ok = False
                    break
            if not ok:
                continue
            # ---- end elements carry the same names as their start
            stk = []
            for e in st.events:
                if e[0] == 'SE':
                    stk.append(e)
                elif e[0] == 'EE':
                    s = stk.pop()
                    if (e[1], none_if_empty(e[2]), e[3]) != (s[1], none_if_empty(s[2]), s[3]):
                        ck.violation('C06:end-name:%s' % name, 'endElement %r does not match startElement %r' % (e[1:4], s[1:4]), {'case': c.to_json(), 'text': g['text']})
                        ok = False
                        break
            # ---- prefix mapping events
            if name.startswith('sax2'):
                pm_ok, msg, per = check_prefix_mappings(st.events)
                stats['pm_docs'] += 1
                if not pm_ok:
                    ck.violation('C06:prefix-mapping:%s' % name, msg, {'case': c.to_json(), 'text': g['text']})
                    ok = False
                else:
                    for (el, ins), got in zip(model, per):
                        want = sorted((p, u) for p, u in el['nsdecls'])
                        stats['pm_elements'] += 1
                        if [(p, none_if_empty(u)) for p, u in got] != [(p, none_if_empty(u)) for p, u in want]:
                            ck.violation('C06:prefix-mapping-set:%s' % name, 'startPrefixMapping events %r for <%s>, declarations are %r' % (got, el['qname'], want), {'case': c.to_json(), 'text': g['text']})
                            ok = False
                            break
            # ---- DOM lookups
            if name == 'dom':
                idx = -1
                who_scope = None
                for e in st.events:
                    if e[0] == 'SE':
                        idx += 1
                        who_scope = model[idx][1]
                    elif e[0] == 'LK':
                        who, kind, arg, ans = e[1], e[2], e[3], e[4]
                        ins = who_scope
                        stats['lookups'] += 1
                        arg = arg or ''
                        if kind == 'ns':
                            if arg in ('xml', 'xmlns'):
                                continue
                            want = ins.get(arg)
                            if none_if_empty(ans) != want:
                                ck.violation('C06:lookupNamespaceURI:%s' % who, 'lookupNamespaceURI(%r) = %r, in scope: %r' % (arg, ans, want), {'case': c.to_json(), 'text': g['text']})
                                ok = False
                        elif kind == 'pfx':
                            if arg == '':
                                continue
                            valid = sorted(p for p, u in ins.items() if u == arg and p not in ('', 'xml'))
                            if (ans is None) != (not valid) or (ans is not None and ans not in valid):
                                ck.violation('C06:lookupPrefix:%s' % who, 'lookupPrefix(%r) = %r, prefixes validly bound in scope: %r' % (arg, ans, valid), {'case': c.to_json(), 'text': g['text']})
                                ok = False
                        elif kind == 'def':
                            if arg == '':
                                continue      # isDefaultNamespace(null): the DOM L3 algorithm answers "unknown" in several shapes; not judged
                            want = (ins.get('') == arg)
                            if (ans == '1') != want:
                                ck.violation('C06:isDefaultNamespace:%s' % who, 'isDefaultNamespace(%r) = %s, default namespace in scope: %r' % (arg, ans, ins.get('')), {'case': c.to_json(), 'text': g['text']})
                                ok = False
            if ok:
                ck.add_distinct(core.h(g['bytes'], name))
                for t in cx.tags:
                    tagc[t] += 1
                if len(ck.samples) < 3 and len(g['text']) < 400 and name == 'dom' and 'ns-shadow' in cx.tags:
                    ck.sample({'text': g['text'], 'config': name, 'lookup_args': {'prefixes': g['lkp'], 'uris': g['lku']},
                               'first_lookups': [list(e) for e in st.events if e[0] == 'LK'][:6]})
    ck.rule = ('namespace-well-formed documents from xmlgen (nesting, shadowing, re-declaration, xmlns="", 1.1 prefix un-declaration, >16 declarations on one element, '
               'declarations after use in the same tag, xml: attributes, entity content inheriting the default namespace) x 8 API/scanner configurations; '
               'non-trivial = document run under a configuration with all checks passed; distinct by (bytes, configuration). Error side: xmlmut namespace operators')
    ck.cov['stats'] = dict(stats)
    ck.cov['tags'] = dict(tagc)
    ck.cov['ns_operators_x_config'] = {k: dict(v) for k, v in opstat.items()}
    ck.assumptions = ['lookupPrefix may return any prefix validly bound in scope (DOM L3 leaves the choice open); null and "" are treated alike for "no namespace"',
                      "lookups for the reserved prefixes xml/xmlns are not judged; SAX2's own URI for xmlns attributes (xmlns-uris feature) is not judged"]
    for t in ('ns-shadow', 'xmlns-undeclare-default', 'many-decls', 'xml-prefix', 'entity-content-markup'):
        if tagc[t] == 0:
            ck.inconclusive.append('construct never exercised: ' + t)
    if stats['lookups'] < 1000:
        ck.inconclusive.append('too few DOM lookups observed')
    return ck.finish()


def replay(j):
    w = j['witness']
    binary = build.ensure('asan', parts=['parse', 'domdump'])
    c = core.Case.from_json(w['case'])
    c.opt['dump'] = 1
    recs = core.run_cases(binary, [c], shards=1)
    print('\n'.join(recs[c.id].lines[:200]))
    print('recorded:', j['what'])
    return 1
