"""dtdgen / cmref: DTD content models as ASTs with a Brzozowski-derivative reference matcher, plus the
attribute / ID / entity / notation / standalone validity-constraint cases of XML 1.0 section 3 and 4."""
import itertools

# AST: ('n', name, occ) | ('seq', [items], occ) | ('alt', [items], occ)   occ in '', '?', '*', '+'
EMPTY_SET = ('void',)
EPS = ('eps',)


def render(m):
    if m[0] == 'n':
        return m[1] + m[2]
    sep = ',' if m[0] == 'seq' else '|'
    return '(' + sep.join(render(x) for x in m[1]) + ')' + m[2]


def render_top(m):
    s = render(m)
    if m[0] == 'n':
        return '(' + m[1] + ')' + m[2]
    return s


def names(m):
    if m[0] == 'n':
        return [m[1]]
    out = []
    for x in m[1]:
        out += names(x)
    return out


# ---- regular expressions over element names (derivative matcher) --------------------------------------------
def to_re(m):
    if m[0] == 'n':
        base = ('sym', m[1])
    elif m[0] == 'seq':
        base = ('cat', [to_re(x) for x in m[1]])
    else:
        base = ('or', [to_re(x) for x in m[1]])
    occ = m[2]
    if occ == '?':
        return ('or', [base, EPS])
    if occ == '*':
        return ('star', base)
    if occ == '+':
        return ('cat', [base, ('star', base)])
    return base


def nullable(r):
    t = r[0]
    if t == 'eps' or t == 'star':
        return True
    if t == 'void' or t == 'sym':
        return False
    if t == 'cat':
        return all(nullable(x) for x in r[1])
    if t == 'or':
        return any(nullable(x) for x in r[1])
    raise ValueError(t)


def deriv(r, a):
    t = r[0]
    if t in ('eps', 'void'):
        return EMPTY_SET
    if t == 'sym':
        return EPS if r[1] == a else EMPTY_SET
    if t == 'star':
        d = deriv(r[1], a)
        return EMPTY_SET if d == EMPTY_SET else ('cat', [d, r])
    if t == 'or':
        ds = [d for d in (deriv(x, a) for x in r[1]) if d != EMPTY_SET]
        return EMPTY_SET if not ds else ds[0] if len(ds) == 1 else ('or', ds)
    if t == 'cat':
        items = r[1]
        out = []
        for i, x in enumerate(items):
            d = deriv(x, a)
            if d != EMPTY_SET:
                rest = items[i + 1:]
                out.append(('cat', [d] + rest) if rest else d)
            if not nullable(x):
                break
        return EMPTY_SET if not out else out[0] if len(out) == 1 else ('or', out)
    raise ValueError(t)


def matches(m, seq):
    r = to_re(m)
    for a in seq:
        r = deriv(r, a)
        if r == EMPTY_SET:
            return False
    return nullable(r)


# ---- random deterministic content models: every name occurs at most once ------------------------------------
def gen_model(r, pool):
    """random model over a subset of pool; each name at most once, hence 1-unambiguous (deterministic)"""
    pool = list(pool)
    r.shuffle(pool)
    pool = pool[:r.randint(1, len(pool))]
    occs = ['', '', '?', '*', '+']

    def build(avail, d):
        if len(avail) == 1:
            return ('n', avail[0], r.choice(occs))
        kind = r.choice(['seq', 'alt'])
        k = r.randint(2, min(4, len(avail))) if d < 3 else len(avail)
        cuts = sorted(r.sample(range(1, len(avail)), k - 1))
        parts = [avail[i:j] for i, j in zip([0] + cuts, cuts + [len(avail)])]
        return (kind, [build(p_, d + 1) for p_ in parts], r.choice(occs))
    return build(pool, 0)


def shape(m):
    if m[0] == 'n':
        return 'n' + m[2]
    return m[0] + '(' + ','.join(shape(x) for x in m[1]) + ')' + m[2]


def sequences(alphabet, maxlen):
    for n in range(maxlen + 1):
        for s in itertools.product(alphabet, repeat=n):
            yield s
