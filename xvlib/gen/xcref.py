"""C05 reference codecs (monitor side, pure python, written for the check - NOT python's `codecs`).

* UTF-8 strictly per Unicode Table 3-7 ("Well-Formed UTF-8 Byte Sequences"), as a stream decoder that
  reports where and why it stopped.
* UTF-16 LE/BE and UCS-4 (UTF-32) LE/BE with the surrogate / range rules.
* single-byte pages from the frozen tables in /verif/golden/c05_tables.json.

Terminology used by the check (same in drivers/xd_xcode.cpp):
  units   list of UTF-16 code units (ints 0..0xFFFF) - what an XMLCh buffer holds
  sizes   per output unit the number of source bytes it accounts for (second half of a pair: 0)
  status  'ok'     every byte consumed
          'err'    an ill-formed sequence starts at byte offset `at`
          'trunc'  the bytes from offset `at` to the end are a proper prefix of a well-formed sequence

`python3 -m xvlib.gen.xcref --make-golden` regenerates golden/c05_tables.json (development time only; it
uses python `codecs` for cp1252/cp037/cp1140/latin-1/ascii and derives IBM1047 from cp037 by the six
published position swaps); `--verify` re-checks the frozen file against python codecs.
"""
import json, os, sys

VERIF = os.path.dirname(os.path.dirname(os.path.dirname(os.path.abspath(__file__))))
GOLDEN = os.path.join(VERIF, 'golden', 'c05_tables.json')

# --------------------------------------------------------------------------------------------------
#  UTF-8, Unicode Table 3-7
# --------------------------------------------------------------------------------------------------
# (lead lo, lead hi, length, second-byte lo, second-byte hi)
U8_ROWS = (
    (0x00, 0x7F, 1, None, None),
    (0xC2, 0xDF, 2, 0x80, 0xBF),
    (0xE0, 0xE0, 3, 0xA0, 0xBF),
    (0xE1, 0xEC, 3, 0x80, 0xBF),
    (0xED, 0xED, 3, 0x80, 0x9F),
    (0xEE, 0xEF, 3, 0x80, 0xBF),
    (0xF0, 0xF0, 4, 0x90, 0xBF),
    (0xF1, 0xF3, 4, 0x80, 0xBF),
    (0xF4, 0xF4, 4, 0x80, 0x8F),
)
_U8_LEAD = [None] * 256
for _r in U8_ROWS:
    for _b in range(_r[0], _r[1] + 1):
        _U8_LEAD[_b] = _r


def u8_generic_len(lead):
    """length the *bit pattern* of a lead byte announces in the original (1..6 byte) UTF-8 scheme; used only to
    decide whether a decoder may still legitimately say "need more input" for an ill-formed tail"""
    if lead < 0xC0:
        return 1
    if lead < 0xE0:
        return 2
    if lead < 0xF0:
        return 3
    if lead < 0xF8:
        return 4
    if lead < 0xFC:
        return 5
    return 6


def u8_class(data, at):
    """name of the ill-formedness that starts at data[at] (for violation keys)"""
    b0 = data[at]
    if 0x80 <= b0 <= 0xBF:
        return 'lone-continuation'
    if b0 in (0xC0, 0xC1):
        return 'overlong2'
    if b0 >= 0xF5:
        return 'lead-F5-FF'
    row = _U8_LEAD[b0]
    if at + 1 < len(data):
        b1 = data[at + 1]
        if not (row[3] <= b1 <= row[4]):
            if 0x80 <= b1 <= 0xBF:
                if b0 == 0xE0:
                    return 'overlong3'
                if b0 == 0xED:
                    return 'surrogate'
                if b0 == 0xF0:
                    return 'overlong4'
                if b0 == 0xF4:
                    return 'above-10FFFF'
            return 'bad-continuation'
    return 'bad-continuation'


def units_of(cp):
    if cp >= 0x10000:
        cp -= 0x10000
        return [0xD800 + (cp >> 10), 0xDC00 + (cp & 0x3FF)]
    return [cp]


class Dec:
    __slots__ = ('units', 'sizes', 'status', 'at', 'cls')

    def __init__(self):
        self.units, self.sizes, self.status, self.at, self.cls = [], [], 'ok', 0, None

    def text(self):
        return units_to_str(self.units)

    def __repr__(self):
        return 'Dec(%s at=%d%s units=%s)' % (self.status, self.at, (' ' + self.cls) if self.cls else '', ' '.join('%04X' % u for u in self.units))


def units_to_str(units):
    """python str with lone surrogates preserved"""
    out = []
    i = 0
    while i < len(units):
        u = units[i]
        if 0xD800 <= u < 0xDC00 and i + 1 < len(units) and 0xDC00 <= units[i + 1] < 0xE000:
            out.append(chr(0x10000 + ((u - 0xD800) << 10) + (units[i + 1] - 0xDC00)))
            i += 2
        else:
            out.append(chr(u))
            i += 1
    return ''.join(out)


def str_to_units(s):
    out = []
    for ch in s:
        out.extend(units_of(ord(ch)))
    return out


def dec_utf8(data):
    d = Dec()
    n = len(data)
    p = 0
    while p < n:
        row = _U8_LEAD[data[p]]
        if row is None:
            d.status, d.at, d.cls = 'err', p, u8_class(data, p)
            return d
        ln = row[2]
        cp = data[p] if ln == 1 else data[p] & (0x7F >> ln)
        k = 1
        while k < ln:
            if p + k >= n:
                d.status, d.at = 'trunc', p
                return d
            b = data[p + k]
            lo, hi = (row[3], row[4]) if k == 1 else (0x80, 0xBF)
            if not (lo <= b <= hi):
                d.status, d.at, d.cls = 'err', p, u8_class(data, p)
                return d
            cp = (cp << 6) | (b & 0x3F)
            k += 1
        us = units_of(cp)
        d.units.extend(us)
        d.sizes.append(ln)
        if len(us) == 2:
            d.sizes.append(0)
        p += ln
    d.at = n
    return d


def enc_utf8_cp(cp):
    if cp < 0x80:
        return bytes([cp])
    if cp < 0x800:
        return bytes([0xC0 | (cp >> 6), 0x80 | (cp & 63)])
    if cp < 0x10000:
        return bytes([0xE0 | (cp >> 12), 0x80 | ((cp >> 6) & 63), 0x80 | (cp & 63)])
    return bytes([0xF0 | (cp >> 18), 0x80 | ((cp >> 12) & 63), 0x80 | ((cp >> 6) & 63), 0x80 | (cp & 63)])


# --------------------------------------------------------------------------------------------------
#  UTF-16 / UCS-4
# --------------------------------------------------------------------------------------------------
def dec_utf16(data, big):
    """Code units in the given byte order.  `wf` tells whether the unit sequence is well-formed UTF-16
    (the Xerces UTF-16 transcoder is a unit copier; well-formedness is judged at document level)."""
    d = Dec()
    n = len(data)
    p = 0
    while p + 1 < n:
        u = (data[p] << 8 | data[p + 1]) if big else (data[p + 1] << 8 | data[p])
        d.units.append(u)
        d.sizes.append(2)
        p += 2
    d.at = p
    if p < n:
        d.status = 'trunc'
    return d


def utf16_wellformed(units):
    i = 0
    while i < len(units):
        u = units[i]
        if 0xD800 <= u < 0xDC00:
            if i + 1 < len(units) and 0xDC00 <= units[i + 1] < 0xE000:
                i += 2
                continue
            return False
        if 0xDC00 <= u < 0xE000:
            return False
        i += 1
    return True


def dec_ucs4(data, big):
    d = Dec()
    n = len(data)
    p = 0
    while p + 3 < n:
        q = data[p:p + 4]
        v = int.from_bytes(q, 'big' if big else 'little')
        if v > 0x10FFFF:
            d.status, d.at, d.cls = 'err', p, 'above-10FFFF'
            return d
        if 0xD800 <= v < 0xE000:
            d.status, d.at, d.cls = 'err', p, 'surrogate'
            return d
        us = units_of(v)
        d.units.extend(us)
        d.sizes.append(4)
        if len(us) == 2:
            d.sizes.append(0)
        p += 4
    d.at = p
    if p < n:
        d.status = 'trunc'
    return d


class Enc:
    __slots__ = ('data', 'status', 'at', 'cls')

    def __init__(self):
        self.data, self.status, self.at, self.cls = bytearray(), 'ok', 0, None

    def __repr__(self):
        return 'Enc(%s at=%d%s %s)' % (self.status, self.at, (' ' + self.cls) if self.cls else '', bytes(self.data).hex())


def scalars(units):
    """yield (index, cp or None, nunits, cls): cls names ill-formed UTF-16 ('lone-low', 'high-not-followed-by-low',
    'high-at-end')"""
    i = 0
    n = len(units)
    while i < n:
        u = units[i]
        if 0xD800 <= u < 0xDC00:
            if i + 1 >= n:
                yield i, None, 1, 'high-at-end'
                i += 1
            elif 0xDC00 <= units[i + 1] < 0xE000:
                yield i, 0x10000 + ((u - 0xD800) << 10) + (units[i + 1] - 0xDC00), 2, None
                i += 2
            else:
                yield i, None, 1, 'high-not-followed-by-low'
                i += 1
        elif 0xDC00 <= u < 0xE000:
            yield i, None, 1, 'lone-low'
            i += 1
        else:
            yield i, u, 1, None
            i += 1


def enc_units(kind, units, table=None):
    """Encode UTF-16 units.  status 'ok' | 'illformed' (stops at the first lone surrogate: there is no legal byte
    sequence for it) | 'unrep' (single-byte pages: first code point without a byte)."""
    e = Enc()
    inv = None
    if table is not None:
        inv = {}
        for b, cp in enumerate(table):
            if cp is not None and cp not in inv:
                inv[cp] = b
    for i, cp, nu, cls in scalars(units):
        if cp is None:
            e.status, e.at, e.cls = 'illformed', i, cls
            return e
        if kind == 'utf8':
            e.data += enc_utf8_cp(cp)
        elif kind in ('utf16le', 'utf16be'):
            for u in units_of(cp):
                e.data += u.to_bytes(2, 'big' if kind == 'utf16be' else 'little')
        elif kind in ('ucs4le', 'ucs4be'):
            e.data += cp.to_bytes(4, 'big' if kind == 'ucs4be' else 'little')
        else:
            b = inv.get(cp)
            if b is None:
                e.status, e.at, e.cls = 'unrep', i, 'U+%04X' % cp
                return e
            e.data.append(b)
    e.at = len(units)
    return e


def decode(kind, data, table=None):
    if kind == 'utf8':
        return dec_utf8(data)
    if kind == 'utf16le':
        return dec_utf16(data, False)
    if kind == 'utf16be':
        return dec_utf16(data, True)
    if kind == 'ucs4le':
        return dec_ucs4(data, False)
    if kind == 'ucs4be':
        return dec_ucs4(data, True)
    d = Dec()
    for p, b in enumerate(data):
        cp = table[b]
        if cp is None:
            d.status, d.at, d.cls = 'err', p, 'undefined-byte'
            return d
        d.units.append(cp)
        d.sizes.append(1)
    d.at = len(data)
    return d


# --------------------------------------------------------------------------------------------------
#  encodings known to the check
# --------------------------------------------------------------------------------------------------
# name handed to makeNewTranscoderFor -> reference kind
UNICODE_ENCODINGS = (
    ('UTF-8', 'utf8'), ('UTF-16LE', 'utf16le'), ('UTF-16BE', 'utf16be'), ('UCS-4LE', 'ucs4le'), ('UCS-4BE', 'ucs4be'),
)
# golden-table pages (intrinsic Xerces transcoders): xerces name -> golden key
TABLE_ENCODINGS = (
    ('ISO-8859-1', 'iso-8859-1'), ('US-ASCII', 'us-ascii'), ('WINDOWS-1252', 'windows-1252'),
    ('IBM037', 'ibm037'), ('IBM1047', 'ibm1047'), ('IBM1140', 'ibm1140'),
)
# aliases registered in TransService.cpp for the intrinsic transcoders: alias -> canonical name above
ALIASES = {
    'UTF8': 'UTF-8',
    'UTF-16 (LE)': 'UTF-16LE', 'UTF-16 (BE)': 'UTF-16BE', 'UCS-4 (LE)': 'UCS-4LE', 'UCS-4 (BE)': 'UCS-4BE',
    'ISO8859-1': 'ISO-8859-1', 'ISO_8859-1': 'ISO-8859-1', 'IBM-819': 'ISO-8859-1', 'IBM819': 'ISO-8859-1',
    'LATIN1': 'ISO-8859-1', 'LATIN-1': 'ISO-8859-1', 'LATIN_1': 'ISO-8859-1', 'CP819': 'ISO-8859-1',
    'CSISOLATIN1': 'ISO-8859-1', 'ISO-IR-100': 'ISO-8859-1', 'L1': 'ISO-8859-1', 'iso-8859-1': 'ISO-8859-1',
    'USASCII': 'US-ASCII', 'ASCII': 'US-ASCII', 'US_ASCII': 'US-ASCII', 'us-ascii': 'US-ASCII',
    'EBCDIC-CP-US': 'IBM037', 'ibm037': 'IBM037', 'IBM-1047': 'IBM1047',
    'IBM01140': 'IBM1140', 'CCSID01140': 'IBM1140', 'CP01140': 'IBM1140',
    'windows-1252': 'WINDOWS-1252', 'utf-8': 'UTF-8',
}
# ICU-backed single-byte pages judged against python codecs (python codec name); bytes python leaves undefined are
# not decided
ICU_SINGLE_BYTE = (
    ('ISO-8859-2', 'iso8859-2'), ('ISO-8859-3', 'iso8859-3'), ('ISO-8859-4', 'iso8859-4'), ('ISO-8859-5', 'iso8859-5'),
    ('ISO-8859-6', 'iso8859-6'), ('ISO-8859-7', 'iso8859-7'), ('ISO-8859-8', 'iso8859-8'), ('ISO-8859-9', 'iso8859-9'),
    ('ISO-8859-10', 'iso8859-10'), ('ISO-8859-13', 'iso8859-13'), ('ISO-8859-14', 'iso8859-14'),
    ('ISO-8859-15', 'iso8859-15'), ('KOI8-R', 'koi8-r'), ('windows-1251', 'cp1251'),
)
# ICU-backed encodings exercised by round trip + split invariance only
ICU_ROUNDTRIP = ('Shift_JIS', 'EUC-JP', 'GB2312', 'Big5', 'EUC-KR', 'windows-1250', 'windows-1253', 'windows-1256',
                 'ISO-8859-11', 'KOI8-U', 'UTF-7', 'IBM500', 'IBM273', 'ISO-2022-JP', 'GB18030')


# Code points for which the library's Unicode->page tables (Windows-1252, IBM037/1047/1140) carry one-way "best fit"
# entries (full-width ASCII variants -> ASCII, D-stroke -> Eth, overline -> macron), as observed on 2026-09-22.  This is
# NOT part of the reference (the reference says: unrepresentable); it only names the violation class, so that a
# different silently-accepted character gets a different key.
XERCES_ONE_WAY = frozenset(range(0xFF01, 0xFF5F)) | frozenset((0x0110, 0x203E))


def py_table(codec):
    t = []
    for b in range(256):
        try:
            s = bytes([b]).decode(codec)
            t.append(ord(s) if len(s) == 1 else None)
        except UnicodeDecodeError:
            t.append(None)
    return t


_golden = None


def golden():
    global _golden
    if _golden is None:
        with open(GOLDEN) as f:
            j = json.load(f)
        _golden = j
    return _golden


def table(key):
    """256 entries: int code point or None (byte undefined in the published page => behaviour not decided)"""
    return list(golden()['tables'][key]['map'])


def undecided_bytes(key):
    """bytes whose decoding the check does not judge (published variants disagree: IBM1047 15/25 NEL-vs-LF; the five
    bytes CP1252.TXT leaves undefined).  A null map entry that is NOT listed here must be rejected by a decoder."""
    return set(int(k, 16) for k in golden()['tables'][key].get('undecided_bytes', []))


def undecided_cps(key):
    """code points whose encoding the check does not judge (counterparts of undecided_bytes)"""
    return set(golden()['tables'][key].get('undecided_cps', []))


# the six positions in which the published CP1047 differs from CP037 (bracket/caret/not-sign/diaeresis/Y-acute)
CP1047_FROM_037 = {0x5F: 0x5E, 0xB0: 0xAC, 0xAD: 0x5B, 0xBA: 0xDD, 0xBD: 0x5D, 0xBB: 0xA8}


def make_golden():
    t037 = py_table('cp037')
    t1047 = list(t037)
    for b, cp in CP1047_FROM_037.items():
        t1047[b] = cp
    assert sorted(t1047) == sorted(t037), 'CP1047 must be a permutation of CP037'
    tabs = {
        'iso-8859-1': {'source': 'identity 00..FF (ISO/IEC 8859-1 + C0/C1); == python latin-1', 'map': list(range(256))},
        'us-ascii': {'source': 'identity 00..7F, 80..FF undefined; == python ascii', 'map': list(range(128)) + [None] * 128},
        'windows-1252': {'source': 'python cp1252 (Unicode.org CP1252.TXT); 81 8D 8F 90 9D are undefined there (the '
                                   'Microsoft best-fit table maps them to C1 controls) => not decided',
                         'map': py_table('cp1252'), 'undecided_bytes': ['81', '8D', '8F', '90', '9D'],
                         'undecided_cps': [0x81, 0x8D, 0x8F, 0x90, 0x9D]},
        'ibm037': {'source': 'python cp037 (Unicode.org CP037.TXT)', 'map': t037},
        'ibm1140': {'source': 'python cp1140 (= CP037 with 9F -> U+20AC)', 'map': py_table('cp1140')},
        'ibm1047': {'source': 'CP037 with the six published CP1047 position changes (5F ^, B0 not-sign, AD [, BA Y-acute, '
                              'BD ], BB diaeresis); cross-checked once (2026-09-22) byte by byte against ICU ibm-1047_P100-1995 '
                              'through the real library (ICUTranscoder) and uconv: identical.  Byte 15 is NEL (U+0085) in the '
                              'published table and LF (U+000A) in the ",swaplfnl"/z/OS Unix variant (25 the other way round): '
                              'bytes 15/25 and code points U+000A/U+0085 are not decided',
                    'map': t1047, 'undecided_bytes': ['15', '25'], 'undecided_cps': [0x0A, 0x85]},
    }
    os.makedirs(os.path.dirname(GOLDEN), exist_ok=True)
    with open(GOLDEN, 'w') as f:
        f.write('{\n "comment": "frozen reference tables of check C05 (byte -> code point; null = undefined). '
                'Generated once by xvlib/gen/xcref.py --make-golden; at run time these files are the oracle.",\n "tables": {\n')
        items = list(tabs.items())
        for i, (k, v) in enumerate(items):
            f.write('  %s: {\n   "source": %s,\n' % (json.dumps(k), json.dumps(v['source'])))
            for extra in ('undecided_bytes', 'undecided_cps'):
                if extra in v:
                    f.write('   %s: %s,\n' % (json.dumps(extra), json.dumps(v[extra])))
            f.write('   "map": [\n')
            m = v['map']
            for r in range(16):
                f.write('    ' + ', '.join('null' if x is None else str(x) for x in m[r * 16:r * 16 + 16]) + (',' if r < 15 else '') + '\n')
            f.write('   ]\n  }%s\n' % (',' if i + 1 < len(items) else ''))
        f.write(' }\n}\n')


def verify_golden():
    bad = []
    for key, codec in (('iso-8859-1', 'latin-1'), ('us-ascii', 'ascii'), ('windows-1252', 'cp1252'), ('ibm037', 'cp037'), ('ibm1140', 'cp1140')):
        if table(key) != py_table(codec):
            bad.append(key)
    t = table('ibm1047')
    t037 = table('ibm037')
    if [b for b in range(256) if t[b] != t037[b]] != sorted(CP1047_FROM_037):
        bad.append('ibm1047')
    return bad


# --------------------------------------------------------------------------------------------------
#  self test of the reference against python's codecs (two independent references cross-check each other;
#  the C++ reference in xd_xcode.cpp is a third)
# --------------------------------------------------------------------------------------------------
def selftest(n=20000, seed=1):
    import random
    r = random.Random(seed)
    bad = 0
    for i in range(n):
        ln = r.randint(1, 6)
        b = bytes(r.choice((r.randrange(256), r.randrange(0x80, 0x100), r.choice((0xC0, 0xC2, 0xE0, 0xED, 0xEF, 0xF0, 0xF4, 0xF5, 0x80, 0xBF, 0x9F, 0xA0, 0x8F, 0x90)))) for _ in range(ln))
        d = dec_utf8(b)
        try:
            s = b.decode('utf-8')
            ok = d.status == 'ok' and d.text() == s
        except UnicodeDecodeError as e:
            # python reports 'unexpected end of data' for our 'trunc'
            ok = d.status in ('err', 'trunc') and d.at == e.start and d.text() == b[:e.start].decode('utf-8')
        if not ok:
            bad += 1
            print('selftest mismatch', b.hex(), d)
    for cp in list(range(0, 0x110000, 97)) + [0x7F, 0x80, 0x7FF, 0x800, 0xFFFF, 0x10000, 0x10FFFF]:
        if 0xD800 <= cp < 0xE000:
            continue
        u = units_of(cp)
        for kind, codec in (('utf8', 'utf-8'), ('utf16le', 'utf-16-le'), ('utf16be', 'utf-16-be'), ('ucs4le', 'utf-32-le'), ('ucs4be', 'utf-32-be')):
            e = enc_units(kind, u)
            if bytes(e.data) != chr(cp).encode(codec) or decode(kind, bytes(e.data)).units != u:
                bad += 1
                print('selftest mismatch', kind, hex(cp))
    return bad


if __name__ == '__main__':
    if '--make-golden' in sys.argv:
        make_golden()
        print('written', GOLDEN)
    if '--verify' in sys.argv or '--make-golden' in sys.argv:
        print('golden vs python codecs:', verify_golden() or 'identical')
        print('selftest mismatches:', selftest())
