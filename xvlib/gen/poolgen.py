"""poolgen: grammars (DTDs, XML Schema documents) and instance documents for the grammar-pool round trip check (C16).

The oracle of C16 is differential (pool A vs deserialize(serialize(A))), so nothing here has to *decide* validity; the
generator only has to (a) produce grammars that load cleanly and contain every serialisable component kind, and (b)
produce instances of which about half are valid and the rest are invalid in many different ways.  Instances are built
from the same python model the schema text is rendered from (so most un-mutated ones are valid), then mutated.
Part 1 of the module: names and simple types (value spaces with facets)."""
import base64

XS = 'http://www.w3.org/2001/XMLSchema'
XSI = 'http://www.w3.org/2001/XMLSchema-instance'

LETTERS = 'abcdefghijklmnopqrstuvwxyz'
NONASCII = ['é', 'ñ', 'ж', 'λ', '中', 'ü']


def esc_attr(s):
    return s.replace('&', '&amp;').replace('<', '&lt;').replace('"', '&quot;').replace('\n', '&#10;').replace('\t', '&#9;')


def esc_text(s):
    return s.replace('&', '&amp;').replace('<', '&lt;').replace('>', '&gt;')


class Names:
    """unique random NCNames (a few with non-ASCII letters: strings are serialised as UTF-16)"""

    def __init__(self, r):
        self.r = r
        self.used = set()

    def new(self, prefix='', ascii_only=False):
        r = self.r
        for _ in range(1000):
            n = prefix + ''.join(r.choice(LETTERS) for _ in range(r.randint(2, 6)))
            if r.random() < 0.12 and not ascii_only:
                n += r.choice(NONASCII)
            if r.random() < 0.2:
                n += r.choice(['_', '-', '.']) + r.choice(LETTERS) + str(r.randint(0, 99))
            if n not in self.used and not n.lower().startswith('xml'):
                self.used.add(n)
                return n
        raise RuntimeError('name space exhausted')


def annotation(r, depth=0):
    """an xs:annotation element (text); '' most of the time"""
    if r.random() < 0.7:
        return ''
    parts = []
    for _ in range(r.randint(1, 2)):
        if r.random() < 0.5:
            parts.append('<xs:documentation%s>%s</xs:documentation>' % (r.choice(['', ' xml:lang="en"', ' source="urn:doc"']), esc_text('doc ' + ''.join(r.choice(LETTERS + ' <&é') for _ in range(r.randint(0, 20))))))
        else:
            parts.append('<xs:appinfo%s><x:info xmlns:x="urn:appinfo" k="%d">%s</x:info></xs:appinfo>' % (r.choice(['', ' source="urn:app"']), r.randint(0, 999), ''.join(r.choice(LETTERS) for _ in range(r.randint(0, 8)))))
    return '<xs:annotation>%s</xs:annotation>' % ''.join(parts)


# -----------------------------------------------------------------------------------------------------------------
#  value spaces: what a simple type accepts, how to express it with facets, how to narrow it, how to sample it
# -----------------------------------------------------------------------------------------------------------------
STRING_BASES = {
    # builtin: (alphabet for samples, white space facet values allowed, max sample length)
    'string': (LETTERS + ' ', ['preserve', 'replace', 'collapse'], 40),
    'normalizedString': (LETTERS + ' ', ['replace', 'collapse'], 40),
    'token': (LETTERS, ['collapse'], 40),
    'Name': (LETTERS, ['collapse'], 40),
    'NCName': (LETTERS, ['collapse'], 40),
    'NMTOKEN': (LETTERS + '0123456789', ['collapse'], 40),
    'language': (LETTERS, ['collapse'], 8),
    'anyURI': (LETTERS, ['collapse'], 40),
    'ID': (LETTERS, ['collapse'], 40),
    'IDREF': (LETTERS, ['collapse'], 40),
    'ENTITY': (LETTERS, ['collapse'], 40),
}
INT_BOUNDS = {
    'integer': (None, None), 'long': (-2 ** 63, 2 ** 63 - 1), 'int': (-2 ** 31, 2 ** 31 - 1), 'short': (-32768, 32767), 'byte': (-128, 127),
    'nonNegativeInteger': (0, None), 'positiveInteger': (1, None), 'nonPositiveInteger': (None, 0), 'negativeInteger': (None, -1),
    'unsignedLong': (0, 2 ** 64 - 1), 'unsignedInt': (0, 2 ** 32 - 1), 'unsignedShort': (0, 65535), 'unsignedByte': (0, 255),
}
DATE_KINDS = ['dateTime', 'date', 'time', 'gYear', 'gYearMonth', 'gMonth', 'gMonthDay', 'gDay', 'duration']


class Space:
    ws = 'collapse'

    def facets(self):
        return []

    def narrow(self, r):
        return None

    def valid(self, r):
        raise NotImplementedError

    def invalid(self, r):
        return None


def facet(kind, value, r=None, fixed=False):
    a = annotation(r) if r is not None and r.random() < 0.15 else ''
    return '<xs:%s value="%s"%s%s>' % (kind, esc_attr(str(value)), ' fixed="true"' if fixed else '', '/' if not a else '') + (a + '</xs:%s>' % kind if a else '')


class StrSpace(Space):
    def __init__(self, base, minl=0, maxl=None, enum=None, pattern=None, ws=None, own=()):
        self.base, self.minl, self.maxl, self.enum, self.pattern, self.own = base, minl, maxl, enum, pattern, list(own)
        self.alpha, self.wsallowed, self.cap = STRING_BASES[base]
        self.ws = ws or self.wsallowed[-1] if base != 'string' else (ws or 'preserve')
        self.fixed = set()

    def _len(self, r):
        hi = self.maxl if self.maxl is not None else min(self.cap, self.minl + 8)
        return r.randint(max(self.minl, 1 if self.base != 'string' else self.minl), max(hi, self.minl, 1 if self.base != 'string' else 0))

    def _word(self, r, n):
        if n == 0:
            return ''
        a = self.alpha.replace(' ', '')
        s = r.choice(LETTERS) + ''.join(r.choice(self.alpha) for _ in range(n - 1))
        if s.endswith(' '):
            s = s[:-1] + r.choice(a)
        return s.replace('  ', ' x')

    def valid(self, r):
        if self.enum:
            return r.choice(self.enum)
        return self._word(r, self._len(r))

    def invalid(self, r):
        opts = []
        if self.enum:
            opts.append('zz' + self._word(r, 3) + 'q')
        if self.maxl is not None:
            opts.append(self._word(r, self.maxl + r.randint(1, 3)))
        if self.minl > 1:
            opts.append(self._word(r, self.minl - 1))
        if self.pattern:
            opts.append('A1!' + self._word(r, max(self.minl, 3)))
        if self.base in ('Name', 'NCName', 'ID', 'IDREF', 'ENTITY', 'language'):
            opts.append('1 ' + self._word(r, 3))
        if self.base == 'NMTOKEN':
            opts.append('a b')
        return r.choice(opts) if opts else None

    def first(self, r):
        """choose own facets for a restriction of the builtin base; returns facet xml list"""
        f = []
        x = r.random()
        if x < 0.25:
            n = r.randint(1, min(6, self.cap))
            self.minl = self.maxl = n
            f.append(facet('length', n, r, self._fix(r, 'length')))
        elif x < 0.75:
            if r.random() < 0.7:
                self.minl = r.randint(1, 3)
                f.append(facet('minLength', self.minl, r, self._fix(r, 'minLength')))
            if r.random() < 0.8:
                self.maxl = r.randint(max(self.minl, 2), min(self.cap, 12))
                f.append(facet('maxLength', self.maxl, r, self._fix(r, 'maxLength')))
        if r.random() < 0.35:
            a = '[a-z]' if ' ' not in self.alpha and '0' not in self.alpha else ('[a-z ]' if ' ' in self.alpha else '[a-z0-9]')
            self.pattern = r.choice([a + '*', a + '{0,60}', '(' + a + ')*', '\\c*' if ' ' not in self.alpha else '.*', a + '*|' + a + '{2}'])
            f.append(facet('pattern', self.pattern, r))
            if r.random() < 0.3:    # two pattern facets in one step are OR-ed
                f.append(facet('pattern', 'Q\\d+', r))
        if r.random() < 0.3:
            self.enum = sorted(set(self._word(r, self._len(r)) for _ in range(r.randint(1, 5))))
            f += [facet('enumeration', v, r) for v in self.enum]
        if len(self.wsallowed) > 1 and r.random() < 0.5:
            i = self.wsallowed.index(self.ws) if self.ws in self.wsallowed else 0
            self.ws = r.choice(self.wsallowed[i:])
            f.append(facet('whiteSpace', self.ws, r, self._fix(r, 'whiteSpace')))
        return f

    def _fix(self, r, name):
        if r.random() < 0.12:
            self.fixed.add(name)
            return True
        return False

    def narrow(self, r):
        """a derived space (restriction of a user type) + facets; facets marked fixed are never re-specified"""
        n = StrSpace(self.base, self.minl, self.maxl, list(self.enum) if self.enum else None, self.pattern, self.ws)
        n.fixed = set(self.fixed)
        f = []
        if 'length' in self.fixed or (self.minl == self.maxl and self.maxl is not None):
            pass
        else:
            if 'maxLength' not in self.fixed and r.random() < 0.6:
                hi = self.maxl if self.maxl is not None else min(self.cap, 12)
                n.maxl = r.randint(max(self.minl, 1), hi)
                f.append(facet('maxLength', n.maxl, r))
            if 'minLength' not in self.fixed and r.random() < 0.4 and (n.maxl is None or n.maxl > self.minl):
                n.minl = r.randint(self.minl, n.maxl if n.maxl is not None else self.minl + 2)
                f.append(facet('minLength', n.minl, r))
        if self.enum:
            keep = [v for v in self.enum if n.minl <= len(v) <= (n.maxl if n.maxl is not None else 10 ** 6)]
            if keep and (r.random() < 0.5 or len(keep) != len(self.enum)):
                n.enum = sorted(r.sample(keep, r.randint(1, len(keep))))
                f += [facet('enumeration', v, r) for v in n.enum]
            elif not keep:
                return None
        if r.random() < 0.3:
            f.append(facet('pattern', '[a-z 0-9]*', r))
        return n, f


class NumSpace(Space):
    def __init__(self, base, lo=None, hi=None, fd=None, td=None, enum=None):
        self.base, self.lo, self.hi, self.fd, self.td, self.enum = base, lo, hi, fd, td, enum
        self.isint = base in INT_BOUNDS
        if self.isint:
            b = INT_BOUNDS[base]
            self.lo = b[0] if lo is None else lo
            self.hi = b[1] if hi is None else hi
        self.fixed = set()

    def _range(self):
        lo = self.lo if self.lo is not None else (self.hi - 1000 if self.hi is not None else -1000)
        hi = self.hi if self.hi is not None else lo + 2000
        if self.td:
            hi = min(hi, 10 ** max(1, self.td - (self.fd or 0)) - 1)
            lo = max(lo, -(10 ** max(1, self.td - (self.fd or 0)) - 1))
        return lo, max(lo, hi)

    def fmt(self, v, r=None):
        if self.base in ('float', 'double'):
            if r is not None and r.random() < 0.3:
                return '%dE0' % v
            return '%d.5' % v if r is not None and r.random() < 0.3 and (self.hi is None or v < self.hi) and v >= 0 else str(v)
        if not self.isint and r is not None and (self.fd is None or self.fd > 0) and r.random() < 0.5:
            nd = 1 if self.fd is None else r.randint(1, min(self.fd, 3))
            if (self.hi is None or v < self.hi) and v >= 0 and (self.td is None or len(str(abs(v))) + nd <= self.td):
                return '%d.%s' % (v, ''.join(r.choice('123456789') for _ in range(nd)))
        return str(v)

    def valid(self, r):
        if self.enum:
            return r.choice(self.enum)
        lo, hi = self._range()
        return self.fmt(r.randint(lo, hi), r)

    def invalid(self, r):
        opts = ['12x', '']
        if self.hi is not None:
            opts.append(str(self.hi + r.randint(1, 5)))
        if self.lo is not None:
            opts.append(str(self.lo - r.randint(1, 5)))
        if self.isint:
            opts.append('1.5')
        if self.enum:
            opts.append('987654')
        if self.td:
            opts.append('1' * (self.td + 1))
        return r.choice(opts)

    def first(self, r):
        f = []
        lo0, hi0 = self.lo, self.hi
        a = r.randint(-500, 500) if lo0 is None or lo0 < -500 else lo0 + r.randint(0, 20)
        if lo0 is not None:
            a = max(a, lo0)
        if hi0 is not None:
            a = min(a, hi0 - 2) if hi0 - 2 >= (lo0 if lo0 is not None else hi0 - 2) else lo0
        b = a + r.randint(1, 1000)
        if hi0 is not None:
            b = min(b, hi0)
        b = max(b, a)
        x = r.random()
        if x < 0.7:
            if r.random() < 0.5 or (lo0 is not None and a - 1 < lo0):
                f.append(facet('minInclusive', self.fmt(a), r, self._fix(r, 'min')))
                self.lo = a
            else:
                f.append(facet('minExclusive', self.fmt(a - 1), r, self._fix(r, 'min')))
                self.lo = a
        if r.random() < 0.7:
            if r.random() < 0.5 or (hi0 is not None and b + 1 > hi0):
                f.append(facet('maxInclusive', self.fmt(b), r, self._fix(r, 'max')))
                self.hi = b
            else:
                f.append(facet('maxExclusive', self.fmt(b + 1), r, self._fix(r, 'max')))
                self.hi = b
        if self.base not in ('float', 'double'):
            if r.random() < 0.3:
                self.td = r.randint(3, 12)
                f.append(facet('totalDigits', self.td, r, self._fix(r, 'td')))
            if self.base == 'decimal' and r.random() < 0.4:
                self.fd = r.randint(0, 3 if not self.td else min(3, self.td - 1))
                f.append(facet('fractionDigits', self.fd, r))
        if r.random() < 0.25:
            lo, hi = self._range()
            self.enum = sorted(set(self.fmt(r.randint(lo, hi)) for _ in range(r.randint(1, 5))))
            f += [facet('enumeration', v, r) for v in self.enum]
        if r.random() < 0.15:
            f.append(facet('pattern', '[+\\-]?[0-9.E]+', r))
        return f

    def _fix(self, r, name):
        if r.random() < 0.12:
            self.fixed.add(name)
            return True
        return False

    def narrow(self, r):
        n = NumSpace(self.base, self.lo, self.hi, self.fd, self.td, list(self.enum) if self.enum else None)
        n.fixed = set(self.fixed)
        lo, hi = self._range()
        f = []
        if self.enum:
            # facet values must themselves belong to the base type's value space: next to an enumeration only a sub-enumeration
            if len(self.enum) < 2:
                return None
            n.enum = sorted(r.sample(self.enum, r.randint(1, len(self.enum) - 1)))
            return n, [facet('enumeration', v, r) for v in n.enum]
        if 'max' not in self.fixed and r.random() < 0.6 and hi > lo:
            n.hi = r.randint(lo, hi)
            f.append(facet(r.choice(['maxInclusive']), self.fmt(n.hi), r))
        if 'min' not in self.fixed and r.random() < 0.4:
            top = n.hi if n.hi is not None else hi
            if top > lo:
                n.lo = r.randint(lo, top)
                f.append(facet('minInclusive', self.fmt(n.lo), r))
        if self.enum:
            def ok(v):
                try:
                    x = float(v)
                except ValueError:
                    return False
                return (n.lo is None or x >= n.lo) and (n.hi is None or x <= n.hi)
            keep = [v for v in self.enum if ok(v)]
            if not keep:
                return None
            if len(keep) != len(self.enum) or r.random() < 0.5:
                n.enum = sorted(r.sample(keep, r.randint(1, len(keep))))
                f += [facet('enumeration', v, r) for v in n.enum]
        return n, f


class DateSpace(Space):
    """ranges expressed in one integer parameter per kind (year / hour / month / day / days of duration)"""

    def __init__(self, base, lo=None, hi=None, enum=None):
        self.base, self.lo, self.hi, self.enum = base, lo, hi, enum
        self.frac = False     # bounds carry fractional seconds (dateTime / time): the value must survive the round trip
        d = {'dateTime': (1900, 2100), 'date': (1900, 2100), 'gYear': (1, 9000), 'gYearMonth': (1000, 3000), 'time': (0, 23), 'gMonth': (1, 12), 'gMonthDay': (1, 12), 'gDay': (1, 28), 'duration': (0, 5000)}[base]
        self.dlo, self.dhi = d

    def fmt(self, v, r=None):
        m = r.randint(1, 12) if r else 1
        d = r.randint(1, 28) if r else 1
        b = self.base
        tz = r.choice(['', '', 'Z']) if r else ''
        if b == 'dateTime':
            return '%04d-%02d-%02dT%02d:%02d:%02d%s' % (v, m, d, r.randint(0, 23) if r else 0, r.randint(0, 59) if r else 0, r.randint(0, 59) if r else 0, tz)
        if b == 'date':
            return '%04d-%02d-%02d' % (v, m, d)
        if b == 'gYear':
            return '%04d' % v
        if b == 'gYearMonth':
            return '%04d-%02d' % (v, m)
        if b == 'time':
            return '%02d:%02d:%02d' % (v, r.randint(0, 59) if r else 0, r.randint(0, 59) if r else 0)
        if b == 'gMonth':
            return '--%02d' % v
        if b == 'gMonthDay':
            return '--%02d-%02d' % (v, d)
        if b == 'gDay':
            return '---%02d' % v
        return 'P%dD' % v

    def _range(self):
        return (self.lo if self.lo is not None else self.dlo), (self.hi if self.hi is not None else self.dhi)

    def bf(self, v):
        """lexical form of a bound facet"""
        return self.fmt(v) + ('.5' if self.frac else '')

    def valid(self, r):
        if self.enum:
            return r.choice(self.enum)
        lo, hi = self._range()
        v = r.randint(lo, hi)
        if self.frac and r.random() < 0.4:
            # values that differ from a bound only in the fraction of the second (on either side of it)
            edge = r.choice([x for x in (lo - 1, lo, hi, hi + 1) if x >= 0])
            return self.fmt(edge) + r.choice(['.3', '.5', '.7', '.4999', '.5001', ''])
        # on a boundary use the facet's own lexical form: month/day/zone parts make the edges fuzzy
        return self.fmt(v, None if (v in (lo, hi) and (self.lo is not None or self.hi is not None)) else r)

    def invalid(self, r):
        lo, hi = self._range()
        opts = ['yesterday', self.fmt(1)[:-1] + 'x']
        if self.hi is not None and hi + 2 <= self.dhi + 50:
            opts.append(self.fmt(hi + 2))
        if self.lo is not None and lo - 2 >= 1:
            opts.append(self.fmt(lo - 2))
        if self.base in ('date', 'dateTime', 'gYearMonth'):
            opts.append(self.fmt(2000).replace('-0', '-1', 1).replace('-1', '-13', 1))
        return r.choice(opts)

    def first(self, r):
        f = []
        lo, hi = self._range()
        a = r.randint(lo, hi)
        b = r.randint(a, hi)
        floor = 0 if self.base in ('time', 'duration') else 1
        if self.base in ('dateTime', 'time') and r.random() < 0.5:
            self.frac = True
        if r.random() < 0.7:
            self.lo = a
            if r.random() < 0.5 and a - 1 >= floor:
                f.append(facet('minExclusive', self.bf(a - 1), r))
            else:
                f.append(facet('minInclusive', self.bf(a), r))
        if r.random() < 0.7 and b + 1 <= self.dhi:
            self.hi = b
            if r.random() < 0.5:
                f.append(facet('maxInclusive', self.bf(b), r))
            else:
                f.append(facet('maxExclusive', self.bf(b + 1), r))
        if self.lo is not None and self.hi is not None and self.lo > self.hi:
            self.hi = self.lo
            f = [facet('minInclusive', self.bf(self.lo), r), facet('maxInclusive', self.bf(self.hi), r)]
        if r.random() < 0.25:
            lo, hi = self._range()
            self.enum = sorted(set(self.fmt(r.randint(lo, hi), r) for _ in range(r.randint(1, 4))))
            if self.base in ('dateTime', 'date', 'gYearMonth', 'gMonthDay', 'time') and (self.lo is not None or self.hi is not None):
                self.enum = None    # boundary arithmetic on the non-leading fields is not modelled: no enumeration next to bounds
            else:
                f += [facet('enumeration', v, r) for v in self.enum]
        if r.random() < 0.1:
            f.append(facet('pattern', '[\\-0-9:TZPD+.]+', r))
        return f

    def narrow(self, r):
        n = DateSpace(self.base, self.lo, self.hi, list(self.enum) if self.enum else None)
        n.frac = self.frac
        lo, hi = self._range()
        f = []
        if self.enum:
            n.enum = sorted(r.sample(self.enum, r.randint(1, len(self.enum))))
            return n, [facet('enumeration', v, r) for v in n.enum]
        if hi - lo >= 4:
            n.lo = r.randint(lo + 1, lo + (hi - lo) // 2)
            n.hi = r.randint(n.lo, hi - 1)
            f = [facet('minInclusive', n.bf(n.lo), r), facet('maxInclusive', n.bf(n.hi), r)]
            return n, f
        return None


class BoolSpace(Space):
    base = 'boolean'

    def __init__(self, vals=('true', 'false', '1', '0')):
        self.vals = list(vals)

    def valid(self, r):
        return r.choice(self.vals)

    def invalid(self, r):
        return r.choice(['TRUE', 'yes', '2', ''])

    def first(self, r):
        if r.random() < 0.6:
            self.vals = r.choice([['true', 'false'], ['0', '1'], ['true'], ['1', 'true']])
            return [facet('pattern', '|'.join(self.vals), r)]
        return [facet('whiteSpace', 'collapse', r)]

    def narrow(self, r):
        return None


class BinSpace(Space):
    def __init__(self, base, minl=0, maxl=None, enum=None):
        self.base, self.minl, self.maxl, self.enum = base, minl, maxl, enum

    def enc(self, b):
        return b.hex().upper() if self.base == 'hexBinary' else base64.b64encode(b).decode()

    def valid(self, r):
        if self.enum:
            return r.choice(self.enum)
        n = r.randint(self.minl, self.maxl if self.maxl is not None else self.minl + 6)
        return self.enc(bytes(r.randrange(256) for _ in range(n)))

    def invalid(self, r):
        opts = ['ZZ!', 'A']
        if self.maxl is not None:
            opts.append(self.enc(bytes(self.maxl + 2)))
        return r.choice(opts)

    def first(self, r):
        f = []
        if r.random() < 0.3:
            self.minl = self.maxl = r.randint(1, 5)
            f.append(facet('length', self.minl, r))
        else:
            if r.random() < 0.6:
                self.minl = r.randint(0, 3)
                f.append(facet('minLength', self.minl, r))
            if r.random() < 0.7:
                self.maxl = r.randint(max(self.minl, 1), 9)
                f.append(facet('maxLength', self.maxl, r))
        if r.random() < 0.25:
            self.enum = sorted(set(self.valid(r) for _ in range(r.randint(1, 3))))
            f += [facet('enumeration', v, r) for v in self.enum]
        return f or [facet('whiteSpace', 'collapse', r)]

    def narrow(self, r):
        if self.enum or self.minl == self.maxl:
            return None
        n = BinSpace(self.base, self.minl, self.maxl)
        n.maxl = r.randint(max(self.minl, 1), self.maxl if self.maxl is not None else 8)
        return n, [facet('maxLength', n.maxl, r)]


class QNameSpace(Space):
    """QName / NOTATION restricted by an enumeration of names in the schema's own target namespace"""

    def __init__(self, base, prefix, locals_):
        self.base, self.prefix, self.locals = base, prefix, list(locals_)

    def q(self, l):
        return (self.prefix + ':' if self.prefix else '') + l

    def valid(self, r):
        return self.q(r.choice(self.locals))

    def invalid(self, r):
        return r.choice([self.q('nosuch'), 'undeclaredprefix:x', '1:2'])

    def first(self, r):
        return [facet('enumeration', self.q(l), r) for l in self.locals]

    def narrow(self, r):
        if len(self.locals) < 2:
            return None
        n = QNameSpace(self.base, self.prefix, r.sample(self.locals, r.randint(1, len(self.locals) - 1)))
        return n, n.first(r)


class AnySpace(Space):
    base = 'anySimpleType'

    def valid(self, r):
        return r.choice(['x', '12', 'a b  c', ''])

    def first(self, r):
        return []


class ListSpace(Space):
    def __init__(self, item, minn=0, maxn=None, enum=None):
        self.item, self.minn, self.maxn, self.enum = item, minn, maxn, enum

    def valid(self, r):
        if self.enum:
            return r.choice(self.enum)
        n = r.randint(self.minn, self.maxn if self.maxn is not None else self.minn + 4)
        if n == 0:
            return ''
        items = []
        for _ in range(n):
            for _try in range(6):
                v = self.item.sample(r).strip().replace(' ', 'x')
                if v:
                    items.append(v)
                    break
        return r.choice([' ', ' ', '  ', '\n']).join(items) if items else '0'

    def invalid(self, r):
        opts = []
        if self.maxn is not None:
            opts.append(' '.join(self.item.sample(r).replace(' ', 'x') or '0' for _ in range(self.maxn + 2)))
        bad = self.item.sample(r, valid=False)
        if bad:
            opts.append(bad + ' ' + bad)
        return r.choice(opts) if opts else None

    def first(self, r):
        f = []
        x = r.random()
        if x < 0.3:
            self.minn = self.maxn = r.randint(1, 4)
            f.append(facet('length', self.minn, r))
        elif x < 0.8:
            if r.random() < 0.6:
                self.minn = r.randint(1, 2)
                f.append(facet('minLength', self.minn, r))
            self.maxn = r.randint(max(self.minn, 1), 6)
            f.append(facet('maxLength', self.maxn, r))
        if r.random() < 0.2:
            self.enum = sorted(set(' '.join(self.valid(r).split()) for _ in range(r.randint(1, 3))))
            f += [facet('enumeration', v, r) for v in self.enum]
        if r.random() < 0.15:
            f.append(facet('whiteSpace', 'collapse', r))
        return f

    def narrow(self, r):
        return None


class UnionSpace(Space):
    def __init__(self, members, enum=None):
        self.members, self.enum = members, enum

    def valid(self, r):
        if self.enum:
            return r.choice(self.enum)
        return r.choice(self.members).sample(r)

    def invalid(self, r):
        bads = [m.sample(r, valid=False) for m in self.members]
        if all(b is not None for b in bads):
            return '!!' + bads[0] + '!!'
        return None

    def first(self, r):
        f = []
        if r.random() < 0.4:
            self.enum = sorted(set(self.valid(r) for _ in range(r.randint(1, 4))))
            f += [facet('enumeration', v, r) for v in self.enum]
        if r.random() < 0.3:
            f.append(facet('pattern', '.*', r))
        return f

    def narrow(self, r):
        return None


def builtin_space(name, r=None):
    if name in STRING_BASES:
        return StrSpace(name)
    if name in INT_BOUNDS or name in ('decimal', 'float', 'double'):
        return NumSpace(name)
    if name in DATE_KINDS:
        return DateSpace(name)
    if name == 'boolean':
        return BoolSpace()
    if name in ('hexBinary', 'base64Binary'):
        return BinSpace(name)
    if name == 'anySimpleType':
        return AnySpace()
    raise KeyError(name)


BUILTIN_ATOMIC = list(STRING_BASES) + list(INT_BOUNDS) + ['decimal', 'float', 'double', 'boolean', 'hexBinary', 'base64Binary'] + DATE_KINDS


# -----------------------------------------------------------------------------------------------------------------
#  Part 2: schema component model.  Every component knows how to render itself as XSD text and how to produce
#  (mostly valid) instance content.
# -----------------------------------------------------------------------------------------------------------------
class ST:
    """simple type definition (named or anonymous); `space` is what it accepts"""

    def __init__(self, schema, name, body, space, kind='atomic', final=None, ann=''):
        self.schema, self.name, self.body, self.space, self.kind, self.final, self.ann = schema, name, body, space, kind, final, ann

    def ref(self, from_schema):
        return from_schema.qname(self.schema, self.name)

    def fin(self):
        return self.final if self.final is not None else (self.schema.final_default or '')

    def xml(self):
        return '<xs:simpleType%s%s>%s%s</xs:simpleType>' % (' name="%s"' % self.name if self.name else '', ' final="%s"' % self.final if self.final and self.name else '', self.ann, self.body)

    def sample(self, r, valid=True):
        return self.space.valid(r) if valid else self.space.invalid(r)

    def is_id(self):
        return getattr(self.space, 'base', None) in ('ID',)

    def needs_context(self):
        if isinstance(self.space, ListSpace):
            return self.space.item.needs_context()
        if isinstance(self.space, UnionSpace):
            return any(m.needs_context() for m in self.space.members)
        return getattr(self.space, 'base', None) in ('ID', 'IDREF', 'ENTITY', 'QName', 'NOTATION')


class BT:
    """a builtin type used directly"""
    kind = 'atomic'
    name = None

    def __init__(self, name):
        self.bname = name
        self.space = builtin_space(name) if name != 'QName' else None

    def ref(self, from_schema):
        return 'xs:' + self.bname

    def sample(self, r, valid=True):
        return self.space.valid(r) if valid else self.space.invalid(r)

    def is_id(self):
        return self.bname == 'ID'

    def needs_context(self):
        return self.bname in ('ID', 'IDREF', 'ENTITY')


class Attr:
    def __init__(self, schema, name, typ, qualified=False, glob=False, ann=''):
        self.schema, self.name, self.typ, self.qualified, self.glob, self.ann = schema, name, typ, qualified, glob, ann

    def ns(self):
        return self.schema.tns if (self.glob or self.qualified) else None


class AttrUse:
    def __init__(self, attr, use='optional', default=None, fixed=None, ref=False):
        self.attr, self.use, self.default, self.fixed, self.ref = attr, use, default, fixed, ref

    def xml(self, cur):
        a = self.attr
        s = '<xs:attribute'
        if self.ref:
            s += ' ref="%s"' % cur.qname(a.schema, a.name)
        else:
            s += ' name="%s"' % a.name
            if a.qualified != cur.attr_qualified:
                s += ' form="%s"' % ('qualified' if a.qualified else 'unqualified')
        inline = ''
        if not self.ref:
            if isinstance(a.typ, ST) and a.typ.name is None:
                inline = a.typ.xml()
            else:
                s += ' type="%s"' % a.typ.ref(cur)
        if self.use != 'optional':
            s += ' use="%s"' % self.use
        if self.default is not None:
            s += ' default="%s"' % esc_attr(self.default)
        if self.fixed is not None:
            s += ' fixed="%s"' % esc_attr(self.fixed)
        body = (a.ann if not self.ref else '') + inline
        return s + ('>' + body + '</xs:attribute>' if body else '/>')


class AttrGroup:
    def __init__(self, schema, name, uses, anyattr=None, refs=(), ann=''):
        self.schema, self.name, self.uses, self.anyattr, self.refs, self.ann = schema, name, uses, anyattr, list(refs), ann

    def all_uses(self):
        out = list(self.uses)
        for g in self.refs:
            out += g.all_uses()
        return out

    def xml(self, cur):
        return '<xs:attributeGroup name="%s">%s%s%s%s</xs:attributeGroup>' % (self.name, self.ann, ''.join(u.xml(cur) for u in self.uses),
                                                                               ''.join('<xs:attributeGroup ref="%s"/>' % cur.qname(g.schema, g.name) for g in self.refs), self.anyattr or '')


class El:
    def __init__(self, schema, name, typ, glob=False, qualified=True, nillable=False, default=None, fixed=None, abstract=False, subst=None, final=None, block=None, idcs=(), ann=''):
        self.schema, self.name, self.typ, self.glob, self.qualified = schema, name, typ, glob, qualified
        self.nillable, self.default, self.fixed, self.abstract, self.subst, self.final, self.block, self.idcs, self.ann = nillable, default, fixed, abstract, subst, final, block, list(idcs), ann
        self.members = []      # substitution group members (if this is a head)
        self.idc_plan = None   # filled by the identity constraint template

    def ns(self):
        return self.schema.tns if (self.glob or self.qualified) else None

    def xml(self, cur, occ=''):
        s = '<xs:element name="%s"' % self.name
        inline = ''
        if self.typ is not None:
            if getattr(self.typ, 'name', None) is None and not isinstance(self.typ, BT):
                inline = self.typ.xml() if isinstance(self.typ, ST) else self.typ.xml(cur)
            else:
                s += ' type="%s"' % self.typ.ref(cur)
        if not self.glob and self.qualified != cur.elem_qualified:
            s += ' form="%s"' % ('qualified' if self.qualified else 'unqualified')
        if self.nillable:
            s += ' nillable="true"'
        if self.default is not None:
            s += ' default="%s"' % esc_attr(self.default)
        if self.fixed is not None:
            s += ' fixed="%s"' % esc_attr(self.fixed)
        if self.glob:
            if self.abstract:
                s += ' abstract="true"'
            if self.subst is not None:
                s += ' substitutionGroup="%s"' % cur.qname(self.subst.schema, self.subst.name)
            if self.final:
                s += ' final="%s"' % self.final
        if self.block:
            s += ' block="%s"' % self.block
        s += occ
        body = self.ann + inline + ''.join(self.idcs)
        return s + ('>' + body + '</xs:element>' if body else '/>')


def occ_attrs(mn, mx):
    s = ''
    if mn != 1:
        s += ' minOccurs="%d"' % mn
    if mx != 1:
        s += ' maxOccurs="%s"' % ('unbounded' if mx is None else mx)
    return s


class PEl:
    def __init__(self, el, mn=1, mx=1, ref=False):
        self.el, self.mn, self.mx, self.ref = el, mn, mx, ref

    def xml(self, cur):
        if self.ref:
            return '<xs:element ref="%s"%s/>' % (cur.qname(self.el.schema, self.el.name), occ_attrs(self.mn, self.mx))
        return self.el.xml(cur, occ_attrs(self.mn, self.mx))

    def elements(self):
        return [self.el]


class PAny:
    def __init__(self, ns, pc, mn=0, mx=1, ann=''):
        self.ns, self.pc, self.mn, self.mx, self.ann = ns, pc, mn, mx, ann

    def xml(self, cur):
        return '<xs:any namespace="%s" processContents="%s"%s%s' % (self.ns, self.pc, occ_attrs(self.mn, self.mx), '>' + self.ann + '</xs:any>' if self.ann else '/>')

    def elements(self):
        return []


class PGroup:
    def __init__(self, kind, children, mn=1, mx=1, ann=''):
        self.kind, self.children, self.mn, self.mx, self.ann = kind, children, mn, mx, ann

    def xml(self, cur):
        return '<xs:%s%s>%s%s</xs:%s>' % (self.kind, occ_attrs(self.mn, self.mx), self.ann, ''.join(c.xml(cur) for c in self.children), self.kind)

    def elements(self):
        return [e for c in self.children for e in c.elements()]


class GroupDef:
    def __init__(self, schema, name, group, ann=''):
        self.schema, self.name, self.group, self.ann = schema, name, group, ann

    def xml(self, cur):
        return '<xs:group name="%s">%s%s</xs:group>' % (self.name, self.ann, self.group.xml(cur))


class PGroupRef:
    def __init__(self, gd, mn=1, mx=1):
        self.gd, self.mn, self.mx = gd, mn, mx

    def xml(self, cur):
        return '<xs:group ref="%s"%s/>' % (cur.qname(self.gd.schema, self.gd.name), occ_attrs(self.mn, self.mx))

    def elements(self):
        return self.gd.group.elements()


class CT:
    """complex type.  content: 'empty' | 'simple' | 'complex'."""

    def __init__(self, schema, name, content='complex', particle=None, uses=(), agroups=(), anyattr=None, mixed=False, base=None, derivation=None,
                 simple=None, simple_facets='', abstract=False, final=None, block=None, ann=''):
        self.schema, self.name, self.content, self.particle, self.uses, self.agroups, self.anyattr = schema, name, content, particle, list(uses), list(agroups), anyattr
        self.mixed, self.base, self.derivation, self.simple, self.simple_facets = mixed, base, derivation, simple, simple_facets
        self.abstract, self.final, self.block, self.ann = abstract, final, block, ann
        self.derived = []
        self.has_all = isinstance(particle, PGroup) and particle.kind == 'all'

    def ref(self, cur):
        return cur.qname(self.schema, self.name)

    def fin(self):
        return self.final if self.final is not None else (self.schema.final_default or '')

    # effective content for instance generation
    def eff_particles(self):
        if self.derivation == 'extension' and isinstance(self.base, CT):
            return self.base.eff_particles() + ([self.particle] if self.particle else [])
        return [self.particle] if self.particle else []

    def eff_uses(self):
        own = list(self.uses)
        for g in self.agroups:
            own += g.all_uses()
        if isinstance(self.base, CT):
            names = set((u.attr.ns(), u.attr.name) for u in own)
            own = [u for u in self.base.eff_uses() if (u.attr.ns(), u.attr.name) not in names] + own
        return own

    def eff_simple(self):
        if self.content == 'simple':
            return self.simple if self.simple is not None else (self.base.eff_simple() if isinstance(self.base, CT) else None)
        return None

    def eff_mixed(self):
        return self.mixed

    def xml(self, cur):
        s = '<xs:complexType'
        if self.name:
            s += ' name="%s"' % self.name
            if self.abstract:
                s += ' abstract="true"'
            if self.final:
                s += ' final="%s"' % self.final
        if self.block and self.name:
            s += ' block="%s"' % self.block
        if self.mixed and self.content == 'complex':
            s += ' mixed="true"'
        s += '>' + self.ann
        attrs = ''.join(u.xml(cur) for u in self.uses) + ''.join('<xs:attributeGroup ref="%s"/>' % cur.qname(g.schema, g.name) for g in self.agroups) + (self.anyattr or '')
        part = self.particle.xml(cur) if self.particle else ''
        if self.content == 'simple':
            b = self.base.ref(cur)
            inner = self.simple_facets if self.derivation == 'restriction' else ''
            s += '<xs:simpleContent><xs:%s base="%s">%s%s</xs:%s></xs:simpleContent>' % (self.derivation, b, inner, attrs, self.derivation)
        elif self.base is not None:
            s += '<xs:complexContent%s><xs:%s base="%s">%s%s</xs:%s></xs:complexContent>' % (' mixed="true"' if self.mixed and False else '', self.derivation, self.base.ref(cur), part, attrs, self.derivation)
        else:
            s += part + attrs
        return s + '</xs:complexType>'


class Schema:
    """one target namespace; rendered as one main document plus optional included / redefined documents"""

    def __init__(self, pool, tns, prefix, elem_qualified=True, attr_qualified=False):
        self.pool, self.tns, self.prefix, self.elem_qualified, self.attr_qualified = pool, tns, prefix, elem_qualified, attr_qualified
        self.types, self.elements, self.attrs, self.groups, self.agroups, self.notations = [], [], [], [], [], []
        self.imports = []          # other Schema objects
        self.extra_docs = []       # (sysid, text) included / redefined documents
        self.include_xml = ''      # xs:include / xs:redefine statements of the main document
        self.ann = ''
        self.attrs_top = ''
        self.final_default = self.block_default = None
        self.sysid = None

    def qname(self, schema, name):
        if schema is None:
            return 'xs:' + name
        if schema.tns is None:
            return name            # no-namespace component: requires that no default namespace is declared on xs:schema
        return schema.prefix + ':' + name

    def header(self, tns_override=False):
        s = '<xs:schema xmlns:xs="%s"' % XS
        if self.tns is not None:
            s += ' targetNamespace="%s"' % self.tns
        for sc in [self] + self.imports:
            if sc.tns is not None:
                s += ' xmlns:%s="%s"' % (sc.prefix, sc.tns)
        if self.elem_qualified:
            s += ' elementFormDefault="qualified"'
        if self.attr_qualified:
            s += ' attributeFormDefault="qualified"'
        if self.final_default:
            s += ' finalDefault="%s"' % self.final_default
        if self.block_default:
            s += ' blockDefault="%s"' % self.block_default
        return s + self.attrs_top + '>'

    def body_items(self):
        items = [t.xml() if isinstance(t, ST) else t.xml(self) for t in self.types]
        items += [e.xml(self) for e in self.elements]
        items += [AttrUse(a).xml(self).replace('<xs:attribute name', '<xs:attribute name', 1) for a in self.attrs]
        items += [g.xml(self) for g in self.groups] + [g.xml(self) for g in self.agroups] + self.notations
        return items

    def xml(self, r=None, moved=()):
        items = [i for k, i in enumerate(self.body_items()) if k not in moved]
        if r is not None:
            r.shuffle(items)
        imps = ''.join('<xs:import%s schemaLocation="%s"%s' % (' namespace="%s"' % sc.tns if sc.tns is not None else '', sc.sysid, '/>' if not self.pool.r.random() < 0.2 else '>' + annotation(self.pool.r) + '</xs:import>') for sc in self.imports)
        return '<?xml version="1.0" encoding="UTF-8"?>' + self.header() + self.ann + imps + self.include_xml + ''.join(items) + '</xs:schema>'


# -----------------------------------------------------------------------------------------------------------------
#  Part 3: random construction of the schemas of one pool
# -----------------------------------------------------------------------------------------------------------------
FOREIGN_NS = 'urn:x-foreign'
OCCS_EL = [(1, 1), (1, 1), (0, 1), (0, None), (1, None), (2, 5), (0, 3), (1, 2)]
DERIV_SETS = ['#all', 'extension', 'restriction', 'extension restriction']


class SchemaBuilder:
    def __init__(self, pool, schema, cover):
        self.pool, self.s, self.r, self.cover = pool, schema, pool.r, cover
        self.names = pool.names
        self.simple = []        # named simple types usable as element/attribute types
        self.cts = []
        self.local_names = set()

    # ---- simple types -------------------------------------------------------------------------------------------
    def any_simple(self, allow_context=False, atomic_only=False):
        r = self.r
        cands = [t for t in self.simple if (allow_context or not t.needs_context()) and (not atomic_only or t.kind == 'atomic')]
        for sc in self.s.imports:
            cands += [t for t in sc.types if isinstance(t, ST) and t.name and (allow_context or not t.needs_context()) and (not atomic_only or t.kind == 'atomic')]
        if cands and r.random() < 0.7:
            return r.choice(cands)
        b = r.choice(BUILTIN_ATOMIC)
        if not allow_context and b in ('ID', 'IDREF', 'ENTITY'):
            b = 'token'
        return BT(b)

    def restriction_body(self, base_ref, facets, inline_base=None):
        a = annotation(self.r) if self.r.random() < 0.2 else ''
        if inline_base is not None:
            return '<xs:restriction>%s%s%s</xs:restriction>' % (a, inline_base, ''.join(facets))
        return '<xs:restriction base="%s">%s%s</xs:restriction>' % (base_ref, a, ''.join(facets))

    def new_atomic(self, name, builtin=None):
        r = self.r
        b = builtin or self.cover.pick_builtin(r)
        sp = builtin_space(b)
        facets = sp.first(r)
        if r.random() < 0.15 and name is not None:
            inner = ST(self.s, None, self.restriction_body('xs:' + b, []), builtin_space(b))
            body = self.restriction_body(None, facets, inline_base=inner.xml())
        else:
            body = self.restriction_body('xs:' + b, facets)
        return ST(self.s, name, body, sp, 'atomic', final=r.choice([None, None, None, '#all', 'restriction', 'list', 'union', 'list union']) if name else None, ann=annotation(r))

    def new_derived(self, name, base):
        n = base.space.narrow(self.r)
        if n is None or '#all' in base.fin() or 'restriction' in base.fin():
            return None
        sp, facets = n
        return ST(self.s, name, self.restriction_body(base.ref(self.s), facets), sp, base.kind, ann=annotation(self.r))

    def new_list(self, name):
        r = self.r
        cands = [t for t in self.simple if (t.kind == 'atomic' or (t.kind == 'union' and all(getattr(m, 'kind', 'atomic') == 'atomic' for m in t.space.members))) and not ('#all' in t.fin() or 'list' in t.fin()) and not isinstance(t.space, (AnySpace,))
                 and getattr(t.space, 'base', '') not in ('string', 'normalizedString')]
        if cands and r.random() < 0.6:
            item = r.choice(cands)
            body = '<xs:list itemType="%s"/>' % item.ref(self.s)
        elif r.random() < 0.5:
            item = self.new_atomic(None, r.choice(['int', 'token', 'NMTOKEN', 'decimal', 'date', 'boolean', 'NCName', 'double']))
            body = '<xs:list>%s</xs:list>' % item.xml()
        else:
            b = r.choice(['int', 'NMTOKEN', 'token', 'decimal', 'gYear', 'anyURI', 'float', 'hexBinary'])
            item = BT(b)
            body = '<xs:list itemType="xs:%s"/>' % b
        base = ST(self.s, name, body, ListSpace(item), 'list', ann=annotation(r))
        if name is not None and r.random() < 0.5:
            return base
        # a restriction of an anonymous list with length facets
        sp = ListSpace(item)
        facets = sp.first(r)
        inner = ST(self.s, None, body, ListSpace(item), 'list')
        return ST(self.s, name, self.restriction_body(None, facets, inline_base=inner.xml()), sp, 'list', ann=annotation(r))

    def new_union(self, name):
        r = self.r
        members, refs, inl = [], [], []
        cands = [t for t in self.simple if not ('#all' in t.fin() or 'union' in t.fin())]
        for _ in range(r.randint(1, 3)):
            x = r.random()
            if cands and x < 0.5:
                t = r.choice(cands)
                members.append(t)
                refs.append(t.ref(self.s))
            elif x < 0.75:
                b = r.choice(['int', 'boolean', 'date', 'NCName', 'decimal', 'token', 'gYear', 'double'])
                members.append(BT(b))
                refs.append('xs:' + b)
            else:
                t = self.new_atomic(None, r.choice(['int', 'token', 'decimal', 'date']))
                members.append(t)
                inl.append(t.xml())
        # schema order: memberTypes first, then the inline ones
        order = [m for m in members if not (isinstance(m, ST) and m.name is None)] + [m for m in members if isinstance(m, ST) and m.name is None]
        body = '<xs:union%s>%s</xs:union>' % (' memberTypes="%s"' % ' '.join(refs) if refs else '', ''.join(inl))
        u = ST(self.s, name, body, UnionSpace(order), 'union', ann=annotation(r))
        if r.random() < 0.6 or name is None:
            return u
        sp = UnionSpace(order)
        facets = sp.first(r)
        inner = ST(self.s, None, body, UnionSpace(order), 'union')
        return ST(self.s, name, self.restriction_body(None, facets, inline_base=inner.xml()), sp, 'union', ann=annotation(r))

    def build_simple_types(self, n):
        r = self.r
        for _ in range(n):
            name = self.names.new('T')
            x = r.random()
            t = None
            atoms = [t_ for t_ in self.simple if t_.kind == 'atomic']
            if x < 0.5 or not self.simple:
                t = self.new_atomic(name)
            elif x < 0.68 and atoms:
                t = self.new_derived(name, r.choice(atoms)) or self.new_atomic(name)
            elif x < 0.84 and self.pool.allow_lists:
                t = self.new_list(name)
            elif x < 0.84:
                t = self.new_atomic(name)
            else:
                t = self.new_union(name)
            self.simple.append(t)
            self.s.types.append(t)
        if self.s.notations and self.s.tns is not None:
            locs = [n_ for n_ in self.s.notation_names]
            for base in ['NOTATION'] + (['QName'] if r.random() < 0.5 else []):
                sp = QNameSpace(base, self.s.prefix, locs)
                t = ST(self.s, self.names.new('T'), self.restriction_body('xs:' + base, sp.first(r)), sp, 'atomic')
                self.simple.append(t)
                self.s.types.append(t)

    # ---- attributes ---------------------------------------------------------------------------------------------
    def new_attr_use(self, owner_names, allow_id=True, glob=None):
        r = self.r
        if glob is not None:
            a = glob
            ref = True
        else:
            name = self.names.new('a')
            typ = self.any_simple(allow_context=allow_id and r.random() < 0.15)
            if isinstance(typ, BT) and r.random() < 0.2:
                typ = self.new_atomic(None)          # anonymous attribute type
                if typ.needs_context():
                    typ = BT('token')
            q = self.s.attr_qualified if r.random() < 0.85 or self.s.tns is None else not self.s.attr_qualified
            a = Attr(self.s, name, typ, qualified=q, ann=annotation(r) if r.random() < 0.15 else '')
            ref = False
        u = AttrUse(a, ref=ref)
        x = r.random()
        is_id = a.typ.is_id() or a.typ.needs_context()
        if x < 0.25:
            u.use = 'required'
        elif x < 0.5 and not is_id:
            v = a.typ.sample(r)
            if v is not None:
                u.default = v
        elif x < 0.62 and not is_id:
            v = a.typ.sample(r)
            if v is not None:
                u.fixed = v
        return u

    def wildcard_ns(self, attr=False):
        r = self.r
        return r.choice(['##other', '##other', FOREIGN_NS, FOREIGN_NS + ' urn:x-foreign2', '##any' if attr else '##other', '##local ' + FOREIGN_NS if attr else FOREIGN_NS])

    def any_attribute(self):
        r = self.r
        return '<xs:anyAttribute namespace="%s" processContents="%s"%s' % (self.wildcard_ns(True), r.choice(['lax', 'skip', 'strict', 'lax']), '/>' if r.random() < 0.8 else '>' + annotation(r) + '</xs:anyAttribute>')

    def build_attr_decls(self):
        r = self.r
        if self.s.tns is not None or True:
            for _ in range(r.randint(0, 2)):
                typ = self.any_simple()
                a = Attr(self.s, self.names.new('ga'), typ, qualified=self.s.attr_qualified, glob=True, ann=annotation(r))
                if isinstance(a.typ, ST) and a.typ.name is None:
                    a.typ = BT('token')
                self.s.attrs.append(a)
        for _ in range(r.randint(0, 2)):
            uses = [self.new_attr_use(None, allow_id=False) for _ in range(r.randint(1, 3))]
            if self.s.attrs and r.random() < 0.4:
                uses.append(self.new_attr_use(None, glob=r.choice(self.s.attrs)))
            refs = [r.choice(self.s.agroups)] if self.s.agroups and r.random() < 0.3 else []
            have = set(u.attr.name for g_ in refs for u in g_.all_uses())
            uses = [u for u in uses if u.attr.name not in have]
            if not uses:
                uses = [self.new_attr_use(None, allow_id=False)]
            g = AttrGroup(self.s, self.names.new('AG'), uses, anyattr=self.any_attribute() if r.random() < 0.3 and not any(g_.anyattr for g_ in refs) else None,
                          refs=refs, ann=annotation(r))
            self.s.agroups.append(g)

    # ---- particles ----------------------------------------------------------------------------------------------
    def new_local(self, depth=0):
        r = self.r
        name = self.names.new('e')
        x = r.random()
        if x < 0.6 or depth > 1 or not self.cts:
            typ = self.any_simple()
            if r.random() < 0.12:
                typ = self.new_atomic(None)
                if typ.needs_context():
                    typ = BT('string')
        elif x < 0.85:
            typ = r.choice([c for c in self.cts if c.name] or [BT('string')])
        else:
            typ = self.new_ct(None, depth + 1, allow_derive=False)
        q = self.s.elem_qualified if r.random() < 0.9 or self.s.tns is None else not self.s.elem_qualified
        e = El(self.s, name, typ, qualified=q, ann=annotation(r) if r.random() < 0.15 else '')
        self.decorate_value(e)
        if r.random() < 0.1:
            e.block = r.choice(DERIV_SETS + ['substitution'])
        return e

    def decorate_value(self, e):
        r = self.r
        simple = e.typ if isinstance(e.typ, (ST, BT)) else None
        if simple is not None and not simple.needs_context() and r.random() < 0.25:
            v = simple.sample(r)
            if v is not None and v.strip() == v and v != '':
                if r.random() < 0.5:
                    e.default = v
                else:
                    e.fixed = v
        if r.random() < 0.15 and e.fixed is None:
            e.nillable = True

    def gen_particle(self, st, depth=0, top=True, rep=False):
        """st: per-complex-type state {used global elements, used groups, wildcard allowed}.  rep: an enclosing group repeats,
        then nothing inside may repeat (nested repetition of the same element violates unique particle attribution)"""
        r = self.r
        kind = r.choice(['sequence', 'sequence', 'choice'])
        if top or r.random() < 0.5:
            mn, mx = 1, 1
        else:
            mn, mx = r.choice([(0, 1), (1, None), (0, None), (1, 3)]) if not rep else (0, 1)
        inner_rep = rep or mx != 1
        occs = OCCS_EL if not inner_rep else [(1, 1), (1, 1), (0, 1)]
        kids = []
        for _ in range(r.randint(1, 4) if depth == 0 else r.randint(1, 3)):
            x = r.random()
            if x < 0.62:
                o = r.choice(occs)
                kids.append(PEl(self.new_local(depth), o[0], o[1]))
            elif x < 0.72:
                cands = [e for e in st['globals'] if id(e) not in st['used']]
                if cands:
                    e = r.choice(cands)
                    st['used'].add(id(e))
                    for m in e.members:
                        st['used'].add(id(m))
                    o = r.choice(occs)
                    kids.append(PEl(e, o[0], o[1], ref=True))
                    if e.schema is not self.s:
                        st['wild'] = False
            elif x < 0.84 and depth < 2:
                kids.append(self.gen_particle(st, depth + 1, False, inner_rep))
            elif x < 0.92 and not inner_rep:
                cands = [g for g in self.s.groups if id(g) not in st['used'] and not g.has_all]
                if cands:
                    g = r.choice(cands)
                    st['used'].add(id(g))
                    kids.append(PGroupRef(g, *r.choice([(1, 1), (0, 1)])))
            elif st['wild'] and self.s.elem_qualified and self.s.tns is not None and kind == 'sequence' and not inner_rep:
                st['wild'] = False
                pc = r.choice(['lax', 'skip', 'strict'])
                kids.append(PAny(self.wildcard_ns(), pc, *r.choice([(0, 1), (0, None), (1, 1), (0, 2)]), ann=annotation(r) if r.random() < 0.2 else ''))
        if not kids:
            kids.append(PEl(self.new_local(depth), 1, 1))
        return PGroup(kind, kids, mn, mx, ann=annotation(r) if r.random() < 0.1 else '')

    def new_state(self):
        globs = list(self.s.elements)
        for sc in self.s.imports:
            globs += sc.elements
        return {'globals': [e for e in globs if e.idc_plan is None], 'used': set(), 'wild': True}

    def build_groups(self):
        r = self.r
        for _ in range(r.randint(0, 2)):
            st = self.new_state()
            st['wild'] = False
            st['globals'] = []
            g = GroupDef(self.s, self.names.new('G'), None, ann=annotation(r))
            if r.random() < 0.15:
                g.group = PGroup('all', [PEl(self.new_local(2), r.choice([0, 1]), 1) for _ in range(r.randint(1, 3))])
                g.has_all = True
            else:
                g.group = self.gen_particle(st, 1, True)
                g.has_all = False
            self.s.groups.append(g)

    # ---- complex types ------------------------------------------------------------------------------------------
    def own_uses(self, n=None, base=None):
        uses = self._own_uses(n)
        if base is not None:
            have = set(u.attr.name for u in base.eff_uses())
            has_id = base.eff_uses_has_id()
            uses = [u for u in uses if u.attr.name not in have and not (has_id and u.attr.typ.is_id())]
        return uses

    def _own_uses(self, n=None):
        r = self.r
        uses = [self.new_attr_use(None) for _ in range(r.randint(0, 3) if n is None else n)]
        # at most one ID-typed attribute per type
        seen_id = False
        for u in uses:
            if u.attr.typ.is_id():
                if seen_id:
                    u.attr.typ = BT('token')
                seen_id = True
        if self.s.attrs and r.random() < 0.3:
            uses.append(self.new_attr_use(None, glob=r.choice(self.s.attrs)))
        for sc in self.s.imports:
            if sc.attrs and r.random() < 0.3:
                uses.append(self.new_attr_use(None, glob=r.choice(sc.attrs)))
        seen, out = set(), []
        for u in uses:
            if (u.attr.ns(), u.attr.name) not in seen:
                seen.add((u.attr.ns(), u.attr.name))
                out.append(u)
        return out

    def new_ct(self, name, depth=0, allow_derive=True):
        r = self.r
        x = r.random()
        ann = annotation(r)
        flags = dict(abstract=False, final=None, block=None)
        if name and r.random() < 0.12:
            flags['final'] = r.choice(DERIV_SETS)
        if name and r.random() < 0.12:
            flags['block'] = r.choice(DERIV_SETS)
        named = [c for c in self.cts if c.name]
        if allow_derive and named and x < 0.3:
            base = r.choice(named)
            ok_ext = not ('#all' in base.fin() or 'extension' in base.fin()) and not base.has_all
            ok_res = not ('#all' in base.fin() or 'restriction' in base.fin())
            if base.content == 'simple' and ok_ext and r.random() < 0.6:
                c = CT(self.s, name, 'simple', uses=self.own_uses(r.randint(0, 2), base), base=base, derivation='extension', ann=ann, **flags)
            elif base.content == 'simple' and ok_res and base.eff_simple() is not None and isinstance(base.eff_simple(), ST) and base.eff_simple().space.narrow(r) is not None and not base.eff_uses_has_id():
                n = base.eff_simple().space.narrow(r)
                if n is None:
                    return self.new_ct(name, depth, False)
                sp, facets = n
                c = CT(self.s, name, 'simple', base=base, derivation='restriction', simple=ST(self.s, None, '', sp), simple_facets=''.join(facets), ann=ann, **flags)
            elif base.content in ('complex', 'empty') and ok_ext and r.random() < 0.7:
                st = self.new_state()
                st['wild'] = False
                st['globals'] = []
                part = self.gen_particle(st, 1, True) if r.random() < 0.8 else None
                if part is not None and part.kind == 'choice' and False:
                    part = PGroup('sequence', [part])
                c = CT(self.s, name, 'complex' if (part or base.content == 'complex') else 'empty', particle=part, uses=self.own_uses(r.randint(0, 2), base), base=base, derivation='extension',
                       mixed=base.mixed, ann=ann, **flags)
                c.content = 'complex' if (part is not None or base.content == 'complex') else 'empty'
            elif base.content in ('complex', 'empty') and ok_res and base.restrictable():
                c = self.restrict_ct(name, base, ann, flags)
            else:
                return self.new_ct(name, depth, False)
            base.derived.append(c)
            if name and r.random() < 0.08 and c.derivation == 'extension':
                pass
            return c
        if x < 0.45:
            typ = self.any_simple(atomic_only=False)
            c = CT(self.s, name, 'simple', uses=self.own_uses(r.randint(0, 3)), base=typ, derivation='extension', simple=typ, ann=ann, **flags)
            if typ.needs_context() or (isinstance(typ, ST) and (typ.name is None or '#all' in typ.fin() or 'extension' in typ.fin())):
                c.base = c.simple = BT('string')
            return c
        if x < 0.53:
            return CT(self.s, name, 'empty', uses=self.own_uses(r.randint(1, 3)), anyattr=self.any_attribute() if r.random() < 0.3 else None, ann=ann, **flags)
        if x < 0.61 and depth == 0:
            kids = [PEl(self.new_local(2), r.choice([0, 1, 1]), 1) for _ in range(r.randint(1, 4))]
            return CT(self.s, name, 'complex', particle=PGroup('all', kids, r.choice([1, 1, 0]), 1), uses=self.own_uses(r.randint(0, 2)), ann=ann, **flags)
        if x < 0.67 and self.s.tns is not None and self.s.elem_qualified:
            # open content: one required element, then a wildcard
            ns = r.choice(['##any', '##other', '##targetNamespace', '##local', FOREIGN_NS + ' ##targetNamespace'])
            p = PGroup('sequence', [PEl(self.new_local(2), 1, 1), PAny(ns, r.choice(['lax', 'skip']), 0, r.choice([None, 2, 1]))])
            c = CT(self.s, name, 'complex', particle=p, uses=self.own_uses(1), anyattr=self.any_attribute(), ann=ann, **flags)
            c.has_all = True       # (not extendable: anything appended after the wildcard would be ambiguous)
            return c
        st = self.new_state()
        if depth > 0:
            st['globals'] = []
        part = self.gen_particle(st, depth, True)
        ag = [r.choice(self.s.agroups)] if self.s.agroups and r.random() < 0.35 else []
        uses = self.own_uses()
        if ag:
            have = set(u.attr.name for u in ag[0].all_uses())
            uses = [u for u in uses if u.attr.name not in have]
        anyattr = self.any_attribute() if r.random() < 0.15 and not (ag and any(g_.anyattr for g_ in [ag[0]] + ag[0].refs)) else None
        c = CT(self.s, name, 'complex', particle=part, uses=uses, agroups=ag, anyattr=anyattr, mixed=r.random() < 0.15, ann=ann, **flags)
        if name and r.random() < 0.1:
            c.abstract = True
        return c

    def restrict_ct(self, name, base, ann, flags):
        """derivation by restriction: the same particle with narrower occurrence ranges; optional attributes become required / fixed / prohibited"""
        r = self.r

        def copy(p):
            if isinstance(p, PEl):
                mn, mx = p.mn, p.mx
                if r.random() < 0.5:
                    if mx is None:
                        mx = r.choice([None, mn + 2, max(mn, 1)])
                    elif mx > mn:
                        mx = r.randint(max(mn, 1), mx)
                    if mx is None or mx > mn:
                        mn = r.randint(mn, mn + 1 if mx is None else min(mx, mn + 1))
                return PEl(p.el, mn, mx, p.ref)
            if isinstance(p, PGroup):
                return PGroup(p.kind, [copy(c) for c in p.children], p.mn, p.mx)
            if isinstance(p, PAny):
                return PAny(p.ns, p.pc, p.mn, p.mx)
            return PGroupRef(p.gd, p.mn, p.mx)
        parts = base.eff_particles()
        part = None
        if parts:
            part = copy(parts[0]) if len(parts) == 1 else PGroup('sequence', [copy(p) for p in parts])
        uses = []
        for u in base.eff_uses():
            if u.use == 'optional' and u.fixed is None and u.default is None and r.random() < 0.5 and not u.attr.typ.needs_context() and (u.ref or isinstance(u.attr.typ, BT) or u.attr.typ.name is not None):
                x = r.random()
                nu = AttrUse(u.attr, ref=u.ref)
                if x < 0.4:
                    nu.use = 'required'
                elif x < 0.7:
                    nu.use = 'prohibited'
                else:
                    v = u.attr.typ.sample(r)
                    if v is None:
                        continue
                    nu.fixed = v
                uses.append(nu)
        c = CT(self.s, name, base.content, particle=part, uses=uses, base=base, derivation='restriction', mixed=base.mixed, ann=ann, **flags)
        c.restricted_uses = uses
        return c

    def build_complex_types(self, n):
        for _ in range(n):
            c = self.new_ct(self.names.new('C'))
            self.cts.append(c)
            self.s.types.append(c)

    # ---- elements -----------------------------------------------------------------------------------------------
    def build_elements(self):
        r = self.r
        s = self.s
        for c in [c for c in self.cts if c.name]:
            if r.random() < 0.8:
                e = El(s, self.names.new('E'), c, glob=True, ann=annotation(r))
                if r.random() < 0.1:
                    e.nillable = True
                s.elements.append(e)
        for _ in range(r.randint(1, 3)):
            e = El(s, self.names.new('E'), self.any_simple(), glob=True, ann=annotation(r))
            self.decorate_value(e)
            s.elements.append(e)
        if r.random() < 0.3:
            s.elements.append(El(s, self.names.new('E'), None, glob=True))       # no type: anyType
        # substitution groups
        heads = [e for e in s.elements if isinstance(e.typ, (CT, BT, ST)) and e.fixed is None and e.default is None]
        for _ in range(r.randint(0, 2)):
            if not heads:
                break
            h = r.choice(heads)
            hfin = h.final if h.final is not None else (h.schema.final_default or '')
            if '#all' in hfin:
                continue
            if r.random() < 0.3:
                h.abstract = True
            if r.random() < 0.15:
                h.final = r.choice(['extension', 'restriction'])
            hfin = h.final if h.final is not None else (h.schema.final_default or '')
            for _ in range(r.randint(1, 2)):
                t = h.typ
                if isinstance(t, CT) and t.derived and r.random() < 0.5:
                    cand = [d for d in t.derived if d.name and d.derivation not in hfin]
                    if cand:
                        t = r.choice(cand)
                m = El(s, self.names.new('M'), t, glob=True, subst=h, ann=annotation(r))
                h.members.append(m)
                s.elements.append(m)
        # identity constraints
        for _ in range(r.choice([0, 1, 1, 2])):
            s.elements.append(self.idc_container())

    def idc_container(self):
        r = self.r
        s = self.s
        p = (s.prefix + ':') if (s.tns is not None and s.elem_qualified) else ''
        row, ref, sub = self.names.new('row'), self.names.new('ref'), self.names.new('sub')
        idn, ton, grp = self.names.new('id'), self.names.new('to'), self.names.new('grp')
        kt = r.choice([BT('int'), BT('token'), BT('NCName'), BT('decimal'), BT('date')] + [t for t in self.simple if t.kind == 'atomic' and not t.needs_context() and not isinstance(t.space, (BoolSpace, AnySpace)) and not getattr(t.space, 'enum', None)][:3])
        st = r.choice([BT('string'), BT('int'), kt])
        two = r.random() < 0.3
        a_id, a_to, a_grp = Attr(s, idn, kt), Attr(s, ton, kt), Attr(s, grp, BT('token'))
        a_to2 = Attr(s, self.names.new('tg'), BT('token'))
        e_sub = El(s, sub, st, qualified=s.elem_qualified)
        row_ct = CT(s, None, 'complex', particle=PGroup('sequence', [PEl(e_sub, 0, 1)]), uses=[AttrUse(a_id, 'required'), AttrUse(a_grp, 'required' if two else 'optional')])
        ref_ct = CT(s, None, 'empty', uses=[AttrUse(a_to, 'optional' if not two else 'required')] + ([AttrUse(a_to2, 'required')] if two else []))
        e_row = El(s, row, row_ct, qualified=s.elem_qualified)
        e_ref = El(s, ref, ref_ct, qualified=s.elem_qualified)
        kname, rname, uname = self.names.new('k'), self.names.new('kr'), self.names.new('u')
        sel_row = r.choice([p + row, './' + p + row, './/' + p + row, p + row + '|' + p + 'nosuch', 'child::' + p + row])
        kind = r.choice(['key', 'key', 'unique'])
        a = annotation(r)
        idcs = ['<xs:%s name="%s">%s<xs:selector xpath="%s"/><xs:field xpath="@%s"/>%s</xs:%s>' % (kind, kname, a, sel_row, idn, '<xs:field xpath="@%s"/>' % grp if two else '', kind)]
        plan = dict(row=e_row, ref=e_ref, sub=e_sub, id=a_id, to=a_to, grp=a_grp, to2=a_to2 if two else None, two=two, keyref=False, usub=False)
        if r.random() < 0.7:
            plan['keyref'] = True
            idcs.append('<xs:keyref name="%s" refer="%s"><xs:selector xpath="%s"/><xs:field xpath="@%s"/>%s</xs:keyref>' % (rname, (s.prefix + ':' if s.tns is not None else '') + kname, p + ref, ton, '<xs:field xpath="@%s"/>' % a_to2.name if two else ''))
        if r.random() < 0.5:
            plan['usub'] = True
            idcs.append('<xs:unique name="%s"><xs:selector xpath="%s"/><xs:field xpath="%s"/></xs:unique>' % (uname, r.choice([p + row, './/' + p + row]), r.choice([p + sub, './' + p + sub, p + sub + '/.'])))
        outer = CT(s, None, 'complex', particle=PGroup('sequence', [PEl(e_row, r.choice([0, 1]), None), PEl(e_ref, 0, None)]))
        e = El(s, self.names.new('K'), outer, glob=True, idcs=idcs)
        e.idc_plan = plan
        return e

    # ---- notation -----------------------------------------------------------------------------------------------
    def build_notations(self):
        r = self.r
        self.s.notation_names = []
        for _ in range(r.choice([0, 0, 1, 2])):
            n = self.names.new('N')
            self.s.notation_names.append(n)
            x = r.random()
            ids = ' public="%s"' % r.choice(['image/gif', '-//X//N ' + n + '//EN'])
            if x < 0.6:
                ids += ' system="%s"' % r.choice(['viewer.exe', 'http://example.org/' + n])
            a = annotation(r)
            self.s.notations.append('<xs:notation name="%s"%s%s' % (n, ids, '/>' if not a else '>' + a + '</xs:notation>'))

    def build(self, size=1.0):
        r = self.r
        self.s.ann = annotation(r) if r.random() < 0.5 else ''
        if r.random() < 0.15:
            self.s.final_default = r.choice(['extension', 'restriction'])
        if r.random() < 0.1:
            self.s.block_default = r.choice(['extension', 'restriction', 'substitution'])
        self.build_notations()
        self.build_simple_types(max(2, int(r.randint(4, 10) * size)))
        if r.random() < 0.25 and not self.s.final_default:
            plan_redefine(self.pool, self.s, r)
        self.build_attr_decls()
        self.build_groups()
        self.build_complex_types(max(2, int(r.randint(3, 8) * size)))
        self.build_elements()
        return self.s


def _eff_uses_has_id(self):
    return any(u.attr.typ.needs_context() for u in self.eff_uses())


def _restrictable(self):
    """restriction is generated only over content whose local elements have named or builtin types and no wildcard / group reference"""
    def ok(p):
        if isinstance(p, PEl):
            return p.ref or isinstance(p.el.typ, BT) or getattr(p.el.typ, 'name', None) is not None
        if isinstance(p, PGroup):
            return p.kind != 'all' and all(ok(c) for c in p.children)
        return False
    return all(ok(p) for p in self.eff_particles()) and not self.mixed and not self.anyattr and not any(g.anyattr or g.refs for g in self.agroups) and self.derivation != 'restriction'


CT.eff_uses_has_id = _eff_uses_has_id
CT.restrictable = _restrictable
GroupDef.has_all = False


# -----------------------------------------------------------------------------------------------------------------
#  Part 4: instance trees
# -----------------------------------------------------------------------------------------------------------------
class Node:
    __slots__ = ('ns', 'name', 'attrs', 'kids', 'typ', 'el', 'ct')

    def __init__(self, ns, name, el=None):
        self.ns, self.name, self.el = ns, name, el
        self.attrs = []      # [ns, name, value, type]
        self.kids = []       # Node | str
        self.typ = None      # simple type of the text content, if any
        self.ct = None


class InstCtx:
    def __init__(self, pool, r):
        self.pool, self.r = pool, r
        self.ids = []
        self.idrefs = []     # (attr list entry | node) to patch
        self.n = 0


def count(r, mn, mx, depth):
    if depth > 5:
        return mn
    hi = mn + 3 if mx is None else min(mx, mn + 3)
    return r.randint(mn, hi) if r.random() < 0.7 else mn


def simple_value(typ, ctx, valid=True):
    r = ctx.r
    base = getattr(typ.space, 'base', None) if typ.space is not None else None
    if base == 'ID' and valid:
        v = 'id%d' % len(ctx.ids) + typ.sample(r)[:2]
        ctx.ids.append(v)
        return v
    v = typ.sample(r, valid)
    return v


def gen_particle_nodes(p, ctx, depth):
    r = ctx.r
    out = []
    if isinstance(p, PEl):
        for _ in range(count(r, p.mn, p.mx, depth)):
            out.append(gen_element(p.el, ctx, depth + 1))
    elif isinstance(p, PGroupRef):
        for _ in range(count(r, p.mn, p.mx, depth)):
            out += gen_group_once(p.gd.group, ctx, depth)
    elif isinstance(p, PGroup):
        for _ in range(count(r, p.mn, p.mx, depth)):
            out += gen_group_once(p, ctx, depth)
    elif isinstance(p, PAny):
        for _ in range(count(r, p.mn, p.mx, depth)):
            out.append(foreign_node(p, ctx))
    return out


def gen_group_once(g, ctx, depth):
    r = ctx.r
    out = []
    if g.kind == 'choice':
        out += gen_particle_nodes(r.choice(g.children), ctx, depth)
    else:
        kids = list(g.children)
        if g.kind == 'all':
            r.shuffle(kids)
        for c in kids:
            out += gen_particle_nodes(c, ctx, depth)
    return out


def foreign_node(p, ctx):
    r = ctx.r
    ns = p.ns.split()
    pick = r.choice(ns)
    tns = ctx.cur_tns
    if pick in ('##other', '##any'):
        target = FOREIGN_NS
    elif pick == '##targetNamespace':
        target = tns
    elif pick == '##local':
        target = None
    else:
        target = pick
    if p.pc == 'strict' or r.random() < 0.3:
        # a declared global element of another schema of the pool, when the wildcard admits its namespace
        cands = [e for sc in ctx.pool.schemas for e in sc.elements if isinstance(e.typ, (BT, ST)) and not e.abstract and not e.typ.needs_context()
                 and ((pick in ('##other',) and sc.tns not in (tns, None)) or (pick == '##any') or (sc.tns == target))]
        if cands:
            return gen_element(r.choice(cands), ctx, 9)
    n = Node(target, 'w' + str(r.randint(0, 9)))
    n.kids.append('free')
    if r.random() < 0.3:
        n.kids.append(Node(target, 'inner'))
    return n


def gen_element(el, ctx, depth=0):
    r = ctx.r
    if el.members and (el.abstract or r.random() < 0.4):
        ms = [m for m in el.members if not m.abstract]
        if ms:
            el = r.choice(ms)
    node = Node(el.ns(), el.name, el)
    typ = el.typ
    if typ is None:
        if r.random() < 0.5:
            node.kids.append('anything')
        return node
    nil = el.nillable and r.random() < 0.15
    if nil:
        node.attrs.append([XSI, 'nil', r.choice(['true', '1']), None])
    if isinstance(typ, (ST, BT)):
        node.typ = typ
        if nil:
            return node
        if el.fixed is not None:
            if r.random() < 0.7:
                node.kids.append(el.fixed)
        elif el.default is not None and r.random() < 0.4:
            pass
        else:
            node.kids.append(simple_value(typ, ctx))
        return node
    ct = typ
    ctx.n += 1
    if depth > 12 or ctx.n > 3000:
        # hard stop for recursive type graphs and a node budget per instance: a recursive element with minOccurs=2 would
        # otherwise grow to 2^12 subtrees (the instance is then probably invalid, which is fine: the oracle is differential)
        return node
    if (ct.abstract or (ct.derived and r.random() < 0.2 and depth < 8)) and ct.name:
        cands = [d for d in all_derived(ct) if d.name and not d.abstract]
        if cands:
            ct = r.choice(cands)
            node.attrs.append([XSI, 'type', ctx.pool.inst_qname(ct.schema, ct.name), None])
    node.ct = ct
    prohibited = set()
    for u in ct.eff_uses():
        if u.use == 'prohibited':
            prohibited.add((u.attr.ns(), u.attr.name))
    seen = set()
    for u in reversed(ct.eff_uses()):
        key = (u.attr.ns(), u.attr.name)
        if key in seen or key in prohibited:
            continue
        seen.add(key)
        if u.use == 'required' or r.random() < 0.55:
            if u.fixed is not None:
                v = u.fixed
            else:
                v = simple_value(u.attr.typ, ctx)
            if getattr(u.attr.typ.space, 'base', None) == 'IDREF':
                ctx.idrefs.append(node.attrs)
            node.attrs.append([u.attr.ns(), u.attr.name, v, u.attr.typ])
    if ct.anyattr or any(g.anyattr for g in ct.agroups):
        if r.random() < 0.4:
            node.attrs.append([FOREIGN_NS, 'extra', r.choice(['1', 'x y']), None])
    if nil:
        return node
    if ct.content == 'simple':
        st = ct.eff_simple()
        node.typ = st
        if st is not None:
            node.kids.append(simple_value(st, ctx))
        return node
    ctx_save = getattr(ctx, 'cur_tns', None)
    ctx.cur_tns = ct.schema.tns
    for p in ct.eff_particles():
        node.kids += gen_particle_nodes(p, ctx, depth)
    ctx.cur_tns = ctx_save
    if ct.mixed and node.kids is not None:
        out = []
        for k in node.kids:
            if r.random() < 0.4:
                out.append(r.choice(['text', ' mixed &amp; ', 'é']))
            out.append(k)
        if r.random() < 0.4:
            out.append('tail')
        node.kids = out
    if el.idc_plan:
        fix_idc(node, el.idc_plan, ctx)
    return node


def all_derived(ct):
    out = []
    for d in ct.derived:
        out.append(d)
        out += all_derived(d)
    return out


def fix_idc(node, plan, ctx):
    """make key values unique and key references resolvable (the mutations break this again on purpose)"""
    r = ctx.r
    rows = [k for k in node.kids if isinstance(k, Node) and k.el is plan['row']]
    refs = [k for k in node.kids if isinstance(k, Node) and k.el is plan['ref']]
    seen, keys, subs = set(), [], set()
    for i, row in enumerate(rows):
        ida = next((a for a in row.attrs if a[1] == plan['id'].name), None)
        ga = next((a for a in row.attrs if a[1] == plan['grp'].name), None)
        for _ in range(30):
            k = (ida[2], ga[2] if (ga and plan['two']) else None)
            if k not in seen:
                break
            ida[2] = plan['id'].typ.sample(r)
        else:
            row.attrs = [a for a in row.attrs]
        seen.add(k)
        keys.append(k)
        for s in [c for c in row.kids if isinstance(c, Node) and c.el is plan['sub']]:
            for _ in range(30):
                t = s.kids[0] if s.kids else ''
                if t not in subs:
                    break
                s.kids = [plan['sub'].typ.sample(r) + str(i)] if getattr(plan['sub'].typ, 'bname', '') == 'string' else [plan['sub'].typ.sample(r)]
            subs.add(s.kids[0] if s.kids else '')
    for ref in refs:
        ta = next((a for a in ref.attrs if a[1] == plan['to'].name), None)
        if ta is None:
            continue
        if keys:
            k = r.choice(keys)
            ta[2] = k[0]
            if plan['two']:
                t2 = next((a for a in ref.attrs if a[1] == plan['to2'].name), None)
                if t2 is not None and k[1] is not None:
                    t2[2] = k[1]


def finish_refs(ctx):
    r = ctx.r
    for attrs in ctx.idrefs:
        for a in attrs:
            if a[3] is not None and getattr(a[3].space, 'base', None) == 'IDREF' and ctx.ids:
                a[2] = r.choice(ctx.ids)


# ---- serialisation of a tree ------------------------------------------------------------------------------------
def render(node, pool, root=True, dtd=False):
    pfx = pool.prefix_of(node.ns)
    q = (pfx + ':' if pfx else '') + node.name
    s = '<' + q
    if root and not dtd:
        for sc_ns, p in pool.ns_prefixes():
            s += ' xmlns:%s="%s"' % (p, sc_ns)
        s += ' xmlns:xsi="%s" xmlns:f="%s" xmlns:f2="urn:x-foreign2"' % (XSI, FOREIGN_NS)
    for a in node.attrs:
        ap = pool.prefix_of(a[0]) if a[0] else ''
        s += ' %s="%s"' % ((ap + ':' if ap else '') + a[1], esc_attr(a[2]))
    if not node.kids:
        return s + '/>'
    s += '>'
    for k in node.kids:
        s += k if isinstance(k, str) and k.startswith(' mixed') else (esc_text(k) if isinstance(k, str) else render(k, pool, False, dtd))
    return s + '</' + q + '>'


# ---- mutations --------------------------------------------------------------------------------------------------
def walk(node, out=None, parent=None):
    if out is None:
        out = []
    out.append((node, parent))
    for k in node.kids:
        if isinstance(k, Node):
            walk(k, out, node)
    return out


MUTATIONS = ['drop-child', 'dup-child', 'swap-children', 'rename', 'rename-to-known', 'foreign-child', 'bad-text', 'garbage-text', 'drop-attr', 'unknown-attr', 'bad-attr',
             'nil', 'xsi-type', 'text-in-element-content', 'strip-ns', 'dup-key', 'empty', 'dangling-ref', 'dup-id', 'extra-root-attr']


def mutate(root, pool, r, op):
    """apply one mutation in place; returns False when the tree offers no site for it"""
    nodes = walk(root)
    elems = [n for n, p in nodes]
    with_kids = [n for n in elems if any(isinstance(k, Node) for k in n.kids)]
    with_text = [n for n in elems if n.typ is not None]
    with_attrs = [n for n in elems if [a for a in n.attrs if a[0] != XSI]]
    if op == 'drop-child' and with_kids:
        n = r.choice(with_kids)
        ks = [i for i, k in enumerate(n.kids) if isinstance(k, Node)]
        del n.kids[r.choice(ks)]
    elif op == 'dup-child' and with_kids:
        n = r.choice(with_kids)
        ks = [i for i, k in enumerate(n.kids) if isinstance(k, Node)]
        i = r.choice(ks)
        n.kids.insert(i, n.kids[i])
    elif op == 'swap-children':
        c = [n for n in with_kids if len([k for k in n.kids if isinstance(k, Node)]) >= 2]
        if not c:
            return False
        n = r.choice(c)
        ks = [i for i, k in enumerate(n.kids) if isinstance(k, Node)]
        i, j = r.sample(ks, 2)
        n.kids[i], n.kids[j] = n.kids[j], n.kids[i]
    elif op == 'rename':
        n = r.choice(elems)
        n.name = n.name + 'X'
    elif op == 'rename-to-known':
        known = pool.known_elements()
        if not known:
            return False
        n = r.choice(elems)
        n.ns, n.name = r.choice(known)
    elif op == 'foreign-child':
        n = r.choice(elems)
        k = Node(r.choice([FOREIGN_NS, None, n.ns]), 'intruder')
        n.kids.insert(r.randint(0, len(n.kids)), k)
    elif op == 'bad-text' and with_text:
        n = r.choice(with_text)
        v = n.typ.sample(r, valid=False)
        if v is None:
            return False
        n.kids = [v]
    elif op == 'garbage-text' and with_text:
        n = r.choice(with_text)
        n.kids = [r.choice(['???', '', ' ', '-', '99999999999999999999', 'true', '2001-02-30', '- -', '1 x'])]
    elif op == 'drop-attr' and with_attrs:
        n = r.choice(with_attrs)
        c = [i for i, a in enumerate(n.attrs) if a[0] != XSI]
        del n.attrs[r.choice(c)]
    elif op == 'unknown-attr':
        r.choice(elems).attrs.append([r.choice([None, FOREIGN_NS]), 'bogus', 'v', None])
    elif op == 'bad-attr' and with_attrs:
        n = r.choice(with_attrs)
        a = r.choice([a for a in n.attrs if a[0] != XSI])
        v = a[3].sample(r, valid=False) if a[3] is not None else None
        a[2] = v if v is not None else '%%%'
    elif op == 'nil':
        n = r.choice(elems)
        n.attrs = [a for a in n.attrs if not (a[0] == XSI and a[1] == 'nil')] + [[XSI, 'nil', r.choice(['true', 'false', 'maybe']), None]]
        if r.random() < 0.5:
            n.kids = []
    elif op == 'xsi-type':
        names = pool.known_types()
        if not names:
            return False
        n = r.choice(elems)
        n.attrs = [a for a in n.attrs if not (a[0] == XSI and a[1] == 'type')] + [[XSI, 'type', r.choice(names), None]]
    elif op == 'text-in-element-content' and with_kids:
        n = r.choice(with_kids)
        n.kids.insert(r.randint(0, len(n.kids)), 'stray text')
    elif op == 'strip-ns':
        n = r.choice(elems)
        n.ns = None if n.ns is not None else FOREIGN_NS
    elif op == 'dup-key':
        c = [n for n in with_kids if len([k for k in n.kids if isinstance(k, Node) and k.attrs]) >= 2]
        if not c:
            return False
        n = r.choice(c)
        ks = [k for k in n.kids if isinstance(k, Node) and k.attrs]
        a, b = r.sample(ks, 2)
        b.attrs = [list(x) for x in a.attrs]
    elif op == 'empty' and with_kids:
        r.choice(with_kids).kids = []
    elif op == 'dangling-ref' and with_attrs:
        n = r.choice(with_attrs)
        a = r.choice([a for a in n.attrs if a[0] != XSI])
        a[2] = 'nowhere' + str(r.randint(0, 99))
    elif op == 'dup-id':
        ids = [(n, a) for n in elems for a in n.attrs if a[3] is not None and getattr(a[3].space, 'base', None) == 'ID']
        if len(ids) < 2:
            return False
        (n1, a1), (n2, a2) = r.sample(ids, 2)
        a2[2] = a1[2]
    elif op == 'extra-root-attr':
        root.attrs.append([XSI, r.choice(['schemaLocation', 'noNamespaceSchemaLocation', 'bogus']), r.choice(['urn:zz file:///xv/none.xsd', 'x']), None])
    else:
        return False
    return True


# -----------------------------------------------------------------------------------------------------------------
#  Part 5: pools (schemas split over documents: import / include / chameleon include / redefine), DTDs
# -----------------------------------------------------------------------------------------------------------------
class Cover:
    """steers random choices towards builtin bases not used yet (every datatype validator class must reach a stream)"""

    def __init__(self):
        self.used = {}

    def pick_builtin(self, r):
        pool = BUILTIN_ATOMIC
        least = min(self.used.get(b, 0) for b in pool)
        c = [b for b in pool if self.used.get(b, 0) == least] if r.random() < 0.5 else pool
        b = r.choice(c)
        self.used[b] = self.used.get(b, 0) + 1
        return b


class Pool:
    def __init__(self, r, cover=None, base='file:///xv/p/'):
        self.r, self.names, self.cover, self.base = r, Names(r), cover or Cover(), base
        self.schemas = []
        self.dtds = []
        self.ents = []          # (sysid, bytes) served by the driver's resolver
        self.grammars = []      # (kind, sysid, bytes) handed to loadGrammar in this order
        self.tags = set()
        self.allow_lists = True

    # -- namespaces / prefixes used in instances
    def ns_prefixes(self):
        return [(sc.tns, sc.prefix) for sc in self.schemas if sc.tns is not None]

    def prefix_of(self, ns):
        if ns is None:
            return ''
        if ns == XSI:
            return 'xsi'
        if ns == FOREIGN_NS:
            return 'f'
        if ns == 'urn:x-foreign2':
            return 'f2'
        for sc in self.schemas:
            if sc.tns == ns:
                return sc.prefix
        return 'f'

    def inst_qname(self, schema, name):
        return (schema.prefix + ':' if schema.tns is not None else '') + name

    def known_elements(self):
        return [(e.ns(), e.name) for sc in self.schemas for e in sc.elements]

    def known_types(self):
        return [self.inst_qname(sc, t.name) for sc in self.schemas for t in sc.types if t.name] + ['xs:string', 'xs:int']

    # -- construction
    def add_schema(self, tns, imports=(), size=1.0):
        r = self.r
        idx = len(self.schemas)
        sc = Schema(self, tns, 'p%d' % idx, elem_qualified=(r.random() < 0.8) if tns is not None else False, attr_qualified=(r.random() < 0.15) if tns is not None else False)
        sc.imports = list(imports)
        sc.sysid = self.base + 's%d.xsd' % idx
        SchemaBuilder(self, sc, self.cover).build(size)
        self.schemas.append(sc)
        return sc

    def emit_schema(self, sc):
        """render sc into its documents (main + included + redefined); registers ENT entries; returns the main document bytes"""
        r = self.r
        skip = getattr(sc, 'redef_skip', set())
        items = [i for i in sc.body_items() if i not in skip]
        imps = ''.join('<xs:import%s schemaLocation="%s"%s' % (' namespace="%s"' % i.tns if i.tns is not None else '', i.sysid if r.random() < 0.7 else i.sysid.rsplit('/', 1)[1],
                                                            '/>' if r.random() < 0.8 else '>' + annotation(r) + '</xs:import>') for i in sc.imports)
        plain_imps = ''.join('<xs:import%s schemaLocation="%s"/>' % (' namespace="%s"' % i.tns if i.tns is not None else '', i.sysid) for i in sc.imports)
        inc = ''
        redef = getattr(sc, 'redefine', None)
        if redef:
            rid = sc.sysid.replace('.xsd', '-red.xsd')
            doc = '<?xml version="1.0"?>' + sc.header() + plain_imps + ''.join(redef['originals']) + '</xs:schema>'
            self.ents.append((rid, doc.encode('utf-8')))
            inc += '<xs:redefine schemaLocation="%s">%s%s</xs:redefine>' % (rid, annotation(r), ''.join(redef['redefined']))
            self.tags.add('redefine')
        if r.random() < 0.35 and len(items) > 4:
            moved = set(r.sample(range(len(items)), r.randint(1, len(items) // 2)))
            inc_id = sc.sysid.replace('.xsd', '-inc.xsd')
            hdr = sc.header()
            if sc.tns is not None and r.random() < 0.4 and all(i.tns is not None for i in sc.imports):
                hdr = hdr.replace(' targetNamespace="%s"' % sc.tns, '', 1)
                self.tags.add('chameleon-include')
            doc = '<?xml version="1.0"?>' + hdr + plain_imps + ''.join(items[k] for k in sorted(moved)) + '</xs:schema>'
            self.ents.append((inc_id, doc.encode('utf-8')))
            a = annotation(r)
            inc += '<xs:include schemaLocation="%s"%s' % (inc_id if r.random() < 0.5 else inc_id.rsplit('/', 1)[1], '/>' if not a else '>' + a + '</xs:include>')
            items = [i for k, i in enumerate(items) if k not in moved]
            self.tags.add('include')
        r.shuffle(items)
        enc = r.choice(['utf-8', 'utf-8', 'utf-16'])
        text = '<?xml version="1.0" encoding="%s"?>' % enc.upper() + sc.header() + sc.ann + imps + inc + ''.join(items) + '</xs:schema>'
        data = text.encode(enc)
        self.ents.append((sc.sysid, data))
        return data


def plan_redefine(pool, sc, r):
    """turn one atomic simple type / one complex type / one attribute group of sc into redefinitions of originals living in another document"""
    originals, redefined = [], []
    sts = [t for t in sc.types if isinstance(t, ST) and t.kind == 'atomic' and t.name and not t.final and not any(t.name in getattr(o, 'body', '') for o in sc.types if o is not t)]
    if sts:
        t = r.choice(sts)
        n = t.space.narrow(r)
        if n is not None:
            originals.append(t.xml())
            sp, facets = n
            t.space = sp
            t.ann = ''
            t.body = '<xs:restriction base="%s">%s</xs:restriction>' % (t.ref(sc), ''.join(facets))
            redefined.append(t.xml())
            sc.redef_names = getattr(sc, 'redef_names', set()) | {t.name}
    if not originals:
        return
    sc.redefine = dict(originals=originals, redefined=redefined)
    # the redefined components are rendered inside xs:redefine, not at top level
    sc.redef_skip = set(redefined)


# ---- DTDs ---------------------------------------------------------------------------------------------------------
from . import dtdgen as _dg

ATT_TYPES = ['CDATA', 'ID', 'IDREF', 'IDREFS', 'ENTITY', 'ENTITIES', 'NMTOKEN', 'NMTOKENS', 'NOTATION', 'ENUM']


class Dtd:
    def __init__(self, pool, r, sysid):
        self.pool, self.r, self.sysid = pool, r, sysid
        nm = pool.names
        n = r.randint(3, 9)
        self.elems = [nm.new('d') for _ in range(n)]
        self.notations = [nm.new('n') for _ in range(r.randint(1, 3))]
        self.unparsed = [nm.new('u') for _ in range(r.randint(1, 2))]
        self.internal = {nm.new('g'): r.choice(['ent text', 'a &amp; b', 'é&#233;&#x4E2D;', '']) for _ in range(r.randint(1, 3))}
        self.external = {}
        self.models, self.attrs = {}, {}
        text = []
        for i, e in enumerate(self.elems):
            later = self.elems[i + 1:]
            x = r.random()
            if not later or x < 0.2:
                kind = r.choice(['EMPTY', '(#PCDATA)', 'ANY'] if later else ['EMPTY', '(#PCDATA)'])
                self.models[e] = (kind, None)
            elif x < 0.4:
                ch = r.sample(later, r.randint(1, min(3, len(later))))
                self.models[e] = ('mixed', ch)
            else:
                m = _dg.gen_model(r, later[:4])
                self.models[e] = ('children', m)
        for e in self.elems:
            kind, m = self.models[e]
            spec = kind if kind in ('EMPTY', '(#PCDATA)', 'ANY') else ('(#PCDATA|%s)*' % '|'.join(m) if kind == 'mixed' else _dg.render_top(m))
            text.append('<!ELEMENT %s %s>' % (e, spec))
        for k, nname in enumerate(self.notations):
            text.append('<!NOTATION %s %s>' % (nname, r.choice(['SYSTEM "%s.exe"' % nname, 'PUBLIC "-//X//N%d"' % k, 'PUBLIC "-//X//N%d" "http://example.org/%s"' % (k, nname)])))
        for k, u in enumerate(self.unparsed):
            text.append('<!ENTITY %s %s NDATA %s>' % (u, r.choice(['SYSTEM "%s.gif"' % u, 'PUBLIC "-//P//U%d" "%s.gif"' % (k, u)]), r.choice(self.notations)))
        for g, v in self.internal.items():
            text.append('<!ENTITY %s "%s">' % (g, v))
        if r.random() < 0.5:
            x = nm.new('x')
            xid = sysid.rsplit('/', 1)[0] + '/' + x + '.ent'
            self.external[x] = xid
            pool.ents.append((xid, r.choice([b'external text', b'<?xml version="1.0" encoding="UTF-8"?>ext &amp; more', b''])))
            text.append('<!ENTITY %s SYSTEM "%s">' % (x, r.choice([xid, xid.rsplit('/', 1)[1]])))
        pe = None
        if r.random() < 0.5:
            pe = nm.new('pe')
            text.insert(0, '<!ENTITY %% %s "%s CDATA #IMPLIED">' % (pe, nm.new('c')))
        for e in self.elems:
            al = []
            have_id = have_not = False
            for _ in range(r.choice([0, 1, 2, 3, 4])):
                t = r.choice(ATT_TYPES)
                if t == 'ID' and have_id:
                    t = 'CDATA'
                if t == 'NOTATION' and (have_not or self.models[e][0] == 'EMPTY'):
                    t = 'NMTOKEN'
                have_id |= t == 'ID'
                have_not |= t == 'NOTATION'
                an = nm.new('t')
                vals = None
                if t == 'ENUM':
                    vals = [nm.new('v') for _ in range(r.randint(1, 4))]
                    decl = '(%s)' % '|'.join(vals)
                elif t == 'NOTATION':
                    vals = r.sample(self.notations, r.randint(1, len(self.notations)))
                    decl = 'NOTATION (%s)' % '|'.join(vals)
                else:
                    decl = t
                sample = {'CDATA': 'some text', 'IDREF': None, 'IDREFS': None, 'ENTITY': self.unparsed[0], 'ENTITIES': ' '.join(self.unparsed), 'NMTOKEN': 'tok-1', 'NMTOKENS': 'a1 b2',
                          'ENUM': vals and vals[0], 'NOTATION': vals and vals[0], 'ID': None}[t]
                d = r.choice(['#REQUIRED', '#IMPLIED', 'fixed', 'default'])
                if sample is None and d in ('fixed', 'default'):
                    d = '#IMPLIED'
                dv = None
                if d == 'fixed':
                    dv, d = sample, '#FIXED "%s"' % sample
                elif d == 'default':
                    dv, d = sample, '"%s"' % sample
                al.append((an, t, vals, d, dv))
            self.attrs[e] = al
            if al or (pe and r.random() < 0.3):
                parts = ' '.join('%s %s %s' % (a[0], ('(%s)' % '|'.join(a[2]) if a[1] == 'ENUM' else 'NOTATION (%s)' % '|'.join(a[2]) if a[1] == 'NOTATION' else a[1]), a[3]) for a in al)
                if pe and r.random() < 0.3:
                    parts += ' %' + pe + ';'
                if len(al) > 1 and r.random() < 0.3:
                    first = '%s %s %s' % (al[0][0], ('(%s)' % '|'.join(al[0][2]) if al[0][1] == 'ENUM' else 'NOTATION (%s)' % '|'.join(al[0][2]) if al[0][1] == 'NOTATION' else al[0][1]), al[0][3])
                    text.append('<!ATTLIST %s %s>' % (e, first))
                    parts = parts[len(first):]
                text.append('<!ATTLIST %s %s>' % (e, parts))
        if r.random() < 0.3:
            text.append('<![INCLUDE[<!ENTITY cond "included">]]><![IGNORE[<!ENTITY cond "ignored">]]>')
            self.internal['cond'] = 'included'
        if r.random() < 0.3:
            text.append('<!-- a comment --><?pi in dtd?>')
        self.text = ('<?xml version="1.0" encoding="UTF-8"?>' if r.random() < 0.4 else '') + '\n'.join(text)

    # ---- instance trees
    def gen(self, e, ctx, depth=0):
        r = ctx.r
        n = Node(None, e)
        for (an, t, vals, d, dv) in self.attrs[e]:
            if d == '#REQUIRED' or r.random() < 0.5:
                if d.startswith('#FIXED'):
                    v = dv
                elif t == 'ID':
                    v = 'i%d' % len(ctx.ids)
                    ctx.ids.append(v)
                elif t in ('IDREF', 'IDREFS'):
                    v = '@ref'
                    ctx.idrefs.append(n.attrs)
                elif t in ('ENUM', 'NOTATION'):
                    v = r.choice(vals)
                elif t == 'ENTITY':
                    v = r.choice(self.unparsed)
                elif t == 'ENTITIES':
                    v = ' '.join(r.sample(self.unparsed, r.randint(1, len(self.unparsed))))
                elif t == 'NMTOKEN':
                    v = r.choice(['tok', '1a', '-x.y'])
                elif t == 'NMTOKENS':
                    v = r.choice(['a b', ' a   b ', 'x'])
                else:
                    v = r.choice(['text', 'with  spaces', 'a&b<c', ''])
                n.attrs.append([None, an, v, None])
        kind, m = self.models[e]
        if depth > 6:
            return n
        if kind == '(#PCDATA)':
            if r.random() < 0.8:
                n.kids.append(self.text_or_ref(r))
        elif kind == 'mixed' or kind == 'ANY':
            ch = m if kind == 'mixed' else self.elems[self.elems.index(e) + 1:]
            for _ in range(r.randint(0, 4)):
                if r.random() < 0.5:
                    n.kids.append(self.text_or_ref(r))
                elif ch:
                    n.kids.append(self.gen(r.choice(ch), ctx, depth + 1))
        elif kind == 'children':
            for name in self.walk_model(m, r, depth):
                n.kids.append(self.gen(name, ctx, depth + 1))
        return n

    def text_or_ref(self, r):
        x = r.random()
        if x < 0.6:
            return r.choice(['pcdata', 'more text', 'é'])
        ents = list(self.internal) + list(self.external)
        return ' mixed &%s; ' % r.choice(ents)     # rendered verbatim (see render)

    def walk_model(self, m, r, depth):
        occ = m[2]
        lo, hi = {'': (1, 1), '?': (0, 1), '*': (0, 2), '+': (1, 3)}[occ]
        if depth > 4:
            hi = lo
        out = []
        for _ in range(r.randint(lo, hi)):
            if m[0] == 'n':
                out.append(m[1])
            elif m[0] == 'seq':
                for c in m[1]:
                    out += self.walk_model(c, r, depth)
            else:
                out += self.walk_model(r.choice(m[1]), r, depth)
        return out


def finish_dtd_refs(ctx):
    r = ctx.r
    for attrs in ctx.idrefs:
        for a in attrs:
            if a[2] == '@ref':
                a[2] = r.choice(ctx.ids) if ctx.ids else 'none'


# -----------------------------------------------------------------------------------------------------------------
#  Part 6: one complete pool case
# -----------------------------------------------------------------------------------------------------------------
def schema_instance(pool, r, mutate_p=0.5):
    roots = [e for sc in pool.schemas for e in sc.elements if not e.abstract]
    if not roots:
        return None
    # identity-constraint containers and complex roots are the interesting ones
    w = [3 if e.idc_plan else 2 if isinstance(e.typ, CT) else 1 for e in roots]
    el = r.choices(roots, w)[0]
    ctx = InstCtx(pool, r)
    ctx.cur_tns = el.schema.tns
    root = gen_element(el, ctx, 0)
    finish_refs(ctx)
    ops = []
    if r.random() < mutate_p:
        for _ in range(r.choice([1, 1, 1, 2])):
            for _try in range(6):
                op = r.choice(MUTATIONS)
                if mutate(root, pool, r, op):
                    ops.append(op)
                    break
    text = render(root, pool)
    head = r.choice(['', '<?xml version="1.0"?>', '<?xml version="1.0" encoding="UTF-8"?>\n<!-- c -->'])
    return (head + text).encode('utf-8'), dict(root=el.name, ops=ops, kind='xsd')


def dtd_instance(pool, r, mutate_p=0.5):
    d = r.choice(pool.dtds)
    ctx = InstCtx(pool, r)
    e = r.choice(d.elems[:max(1, len(d.elems) // 2)])
    root = d.gen(e, ctx, 0)
    finish_dtd_refs(ctx)
    ops = []
    if r.random() < mutate_p:
        for _try in range(6):
            op = r.choice(['drop-child', 'dup-child', 'swap-children', 'rename', 'foreign-child', 'drop-attr', 'unknown-attr', 'dangling-ref', 'text-in-element-content', 'empty', 'dup-id-dtd', 'undeclared-entity', 'rename-to-known'])
            if op == 'dup-id-dtd':
                ids = [a for n, p in walk(root) for a in n.attrs if a[2] in ctx.ids]
                if len(ids) >= 2:
                    ids[1][2] = ids[0][2]
                    ops.append(op)
                    break
            elif op == 'undeclared-entity':
                n = r.choice([n for n, p in walk(root)])
                n.kids.append(' mixed &nosuchentity; ')
                ops.append(op)
                break
            elif op == 'rename-to-known':
                n = r.choice([n for n, p in walk(root)])
                n.name = r.choice(d.elems)
                ops.append(op)
                break
            elif mutate(root, pool, r, op):
                ops.append(op)
                break
    for n, p in walk(root):
        n.ns = None
    text = render(root, pool, dtd=True)
    x = r.random()
    sysref = d.sysid if x < 0.7 else d.sysid.rsplit('/', 1)[1]
    doctype = '<!DOCTYPE %s %s>' % (root.name if r.random() < 0.9 else 'wrongroot', r.choice(['SYSTEM "%s"' % sysref, 'PUBLIC "-//X//DTD" "%s"' % sysref]))
    if r.random() < 0.06:
        doctype = doctype[:-1] + ' [<!ENTITY localent "L">]>'     # an internal subset: the cached grammar is not used (documented)
        ops.append('internal-subset')
    head = r.choice(['', '<?xml version="1.0"?>', '<?xml version="1.0" standalone="no"?>'])
    return (head + doctype + text).encode('utf-8'), dict(root=root.name, ops=ops, kind='dtd')


def make_pool(r, cover=None, kind=None, n_inst=(20, 60)):
    """returns dict(kind, grammars=[(kind, sysid, bytes, via)], ents, instances=[(bytes, meta)], opts, tags)"""
    kind = kind or r.choices(['xsd', 'dtd', 'mixed'], [7, 2, 1])[0]
    pool = Pool(r, cover)
    opts = {}
    if kind in ('xsd', 'mixed'):
        nschemas = r.choice([1, 1, 2, 2, 3])
        nons = r.random() < 0.2
        made = []
        for i in range(nschemas):
            tns = None if (nons and i == 0) else 'urn:xv:%s' % pool.names.new('ns', ascii_only=True)
            imports = [s_ for s_ in made if r.random() < 0.7 and (s_.tns is not None or tns is not None)]
            # a schema whose components are referenced without prefix (no-namespace) can only be imported by a document without default namespace: ours never declares one
            sc = pool.add_schema(tns, imports, size=1.0 if nschemas == 1 else 0.6)
            made.append(sc)
        imported = set(id(i) for sc in made for i in sc.imports)
        for sc in made:
            data = pool.emit_schema(sc)
            # imported schemas come in through xs:import of their importer; the others are loaded explicitly
            if id(sc) not in imported or r.random() < 0.3:
                pool.grammars.append(('xsd', sc.sysid, data, 'load'))
        pool.grammars.sort(key=lambda g: g[1], reverse=r.random() < 0.5)
    if kind in ('dtd', 'mixed'):
        for i in range(r.choice([1, 1, 2])):
            d = Dtd(pool, r, pool.base + 'g%d.dtd' % i)
            pool.dtds.append(d)
            data = d.text.encode('utf-8')
            pool.ents.append((d.sysid, data))
            pool.grammars.append(('dtd', d.sysid, data, 'load'))
    n = r.randint(*n_inst)
    insts = []
    for k in range(n):
        if kind == 'dtd' or (kind == 'mixed' and r.random() < 0.4):
            insts.append(dtd_instance(pool, r))
        else:
            x = schema_instance(pool, r)
            if x:
                insts.append(x)
    # configuration.  PSVI is recorded only on unlocked pools: a locked pool hands every parser an empty XSModel (all PSVI type definitions
    # null, and a defaulted attribute of a user-defined simple type is a null dereference in buildAttList — see notes/C16.md, F6)
    opts['lock'] = r.choice([0, 0, 1])
    opts['psvi'] = 1 if opts['lock'] == 0 else 0
    if kind == 'xsd':
        opts['scanner'] = r.choice(['IG', 'IG', 'SG'])
    elif kind == 'mixed':
        opts.update(scanner='IG', schema=1)
    else:
        opts.update(scanner=r.choice(['IG', 'DG']), schema=0, psvi=0)
    opts['full'] = r.choice([0, 0, 1])
    opts['file'] = 1 if r.random() < 0.1 else 0
    return dict(kind=kind, grammars=pool.grammars, ents=pool.ents, instances=insts, opts=opts, tags=sorted(pool.tags), pool=pool)
