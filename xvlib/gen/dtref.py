"""dtref: reference model of the XML Schema 1.0 (Second Edition) Part 2 datatypes, written for property C09.

Per built-in datatype: lexical recogniser, value mapping (python int / Fraction / IEEE via exact rounding / bytes /
date-time tuples with the order relation of 3.2.7.4 and the duration order of 3.2.6.2), canonical form, facet
evaluation, derivation by restriction / list / union; plus generators of literals (grammar-based, boundary catalogue,
single-edit near-misses) and of facet sets with boundary values.

Three-valued on purpose: where XSD 1.0 is ambiguous, or the repository documents an implementation choice, the
model answers SKIP(reason) instead of a verdict; the checker counts these and never raises an alarm on them.

Pure python 3.11 stdlib.  Nothing here looks at the implementation under test.
"""
import re
from fractions import Fraction

# ---------------------------------------------------------------------------------------------------------------
#  verdict objects
# ---------------------------------------------------------------------------------------------------------------
ACCEPT, REJECT, SKIP = 'accept', 'reject', 'skip'


class Verdict:
    __slots__ = ('v', 'why', 'value', 'prim', 'member')

    def __init__(self, v, why='', value=None, prim=None, member=None):
        self.v, self.why, self.value, self.prim, self.member = v, why, value, prim, member

    def __repr__(self):
        return '%s(%s)' % (self.v, self.why)


class Skip(Exception):
    """raised inside value mappings at the spec's grey spots"""

    def __init__(self, reason):
        Exception.__init__(self, reason)
        self.reason = reason


# ---------------------------------------------------------------------------------------------------------------
#  white space
# ---------------------------------------------------------------------------------------------------------------
WS_CHARS = '\t\n\r '


def ws_replace(s):
    return s.replace('\t', ' ').replace('\n', ' ').replace('\r', ' ')


def ws_collapse(s):
    return ' '.join(x for x in ws_replace(s).split(' ') if x)


def ws_apply(mode, s):
    if mode == 'preserve':
        return s
    if mode == 'replace':
        return ws_replace(s)
    return ws_collapse(s)


# ---------------------------------------------------------------------------------------------------------------
#  XML names: judged only on a code-point set whose classification is identical in XML 1.0 4th and 5th edition
# ---------------------------------------------------------------------------------------------------------------
_ASCII_START = set('ABCDEFGHIJKLMNOPQRSTUVWXYZabcdefghijklmnopqrstuvwxyz_')
_ASCII_NAMECH = _ASCII_START | set('0123456789.-')
# non-ASCII letters (BaseChar / Ideographic in 4e, NameStartChar in 5e)
SURE_START = '\u00e9\u00c0\u0153\u03b1\u0416\u05d0\u4e2d\u3042'
# name characters that are not start characters in both editions (Extender / CombiningChar / Digit)
SURE_NAMEONLY = '\u00b7\u0300'
# never name characters in either edition
SURE_NEVER = '\u00d7\u00f7\u2014 !"#$%&\'()*+,/;<=>?@[\\]^`{|}~'


def _is_start(c, colon):
    return c in _ASCII_START or c in SURE_START or (colon and c == ':')


def _is_namech(c, colon):
    return c in _ASCII_NAMECH or c in SURE_START or c in SURE_NAMEONLY or (colon and c == ':')


def _name_chars_known(s):
    for c in s:
        if ord(c) >= 0x80 and c not in SURE_START and c not in SURE_NAMEONLY and c not in SURE_NEVER:
            return False
    return True


def is_name(s):
    return bool(s) and _is_start(s[0], True) and all(_is_namech(c, True) for c in s[1:])


def is_ncname(s):
    return bool(s) and _is_start(s[0], False) and all(_is_namech(c, False) for c in s[1:])


def is_nmtoken(s):
    return bool(s) and all(_is_namech(c, True) for c in s)


def is_qname(s):
    p = s.split(':')
    if len(p) == 1:
        return is_ncname(s)
    return len(p) == 2 and is_ncname(p[0]) and is_ncname(p[1])


# ---------------------------------------------------------------------------------------------------------------
#  decimal and integers
# ---------------------------------------------------------------------------------------------------------------
_dec_re = re.compile(r'([+-]?)([0-9]*)(?:(\.)([0-9]*))?\Z')
_int_re = re.compile(r'([+-]?)([0-9]+)\Z')


def parse_decimal(s):
    m = _dec_re.match(s)
    if not m:
        return None
    sign, ip, dot, fp = m.group(1), m.group(2), m.group(3), m.group(4) or ''
    if not ip and not fp:
        return None
    n = int((ip or '0') + fp)
    v = Fraction(n, 10 ** len(fp))
    return -v if sign == '-' else v


def parse_integer(s):
    m = _int_re.match(s)
    if not m:
        return None
    v = int(m.group(2))
    return -v if m.group(1) == '-' else v


def dec_digits(v):
    """(i0, n0): v = i0 * 10^-n0 with minimal n0 >= 0"""
    v = Fraction(v)
    n0 = 0
    while v.denominator != 1:
        v *= 10
        n0 += 1
        if n0 > 100000:
            raise ValueError
    return int(v), n0


def canon_decimal(v):
    i0, n0 = dec_digits(v)
    s = str(abs(i0))
    if n0 == 0:
        body = s + '.0'
    else:
        s = s.rjust(n0 + 1, '0')
        body = s[:-n0] + '.' + s[-n0:]
    return ('-' if i0 < 0 else '') + body


INT_RANGES = {
    'integer': (None, None), 'nonPositiveInteger': (None, 0), 'negativeInteger': (None, -1),
    'long': (-2 ** 63, 2 ** 63 - 1), 'int': (-2 ** 31, 2 ** 31 - 1), 'short': (-2 ** 15, 2 ** 15 - 1), 'byte': (-128, 127),
    'nonNegativeInteger': (0, None), 'unsignedLong': (0, 2 ** 64 - 1), 'unsignedInt': (0, 2 ** 32 - 1),
    'unsignedShort': (0, 2 ** 16 - 1), 'unsignedByte': (0, 255), 'positiveInteger': (1, None),
}
UNSIGNED = ('unsignedLong', 'unsignedInt', 'unsignedShort', 'unsignedByte')

# ---------------------------------------------------------------------------------------------------------------
#  float / double: exact decimal -> binary rounding (round-half-even), no double rounding
# ---------------------------------------------------------------------------------------------------------------
_flt_re = re.compile(r'([+-]?)([0-9]*)(?:\.([0-9]*))?(?:[eE]([+-]?[0-9]+))?\Z')
FLT = dict(p=24, emin=-149, emax=104)      # value = m * 2^e, |m| < 2^p, emin <= e <= emax
DBL = dict(p=53, emin=-1074, emax=971)
NAN = 'NaN'
PINF = float('inf')
NINF = float('-inf')


def parse_float_lex(s):
    """-> ('nan'|'inf'|'-inf'|('num', Fraction, negative_sign)) or None if not in the lexical space"""
    if s == 'NaN':
        return 'nan'
    if s == 'INF':
        return 'inf'
    if s == '-INF':
        return '-inf'
    m = _flt_re.match(s)
    if not m:
        return None
    sign, ip, fp, ex = m.group(1), m.group(2), m.group(3), m.group(4)
    if not ip and not fp:
        return None
    if fp is None:
        fp = ''
        if not ip:
            return None
    e = int(ex) if ex is not None else 0
    if abs(e) > 5000:
        raise Skip('float:huge-exponent')
    n = int((ip or '0') + fp)
    sc = e - len(fp)
    v = Fraction(n * 10 ** sc) if sc >= 0 else Fraction(n, 10 ** (-sc))
    return ('num', v, sign == '-')


def round_binary(v, fmt):
    """nearest value m*2^e of the format to the non-negative Fraction v (ties to even); returns Fraction or 'inf'"""
    if v == 0:
        return Fraction(0)
    p, emin, emax = fmt['p'], fmt['emin'], fmt['emax']
    # exponent such that 2^(p-1) <= v/2^e < 2^p
    num, den = v.numerator, v.denominator
    e = num.bit_length() - den.bit_length() - p
    while Fraction(num, den) / Fraction(2) ** e >= 2 ** p:
        e += 1
    while Fraction(num, den) / Fraction(2) ** e < 2 ** (p - 1):
        e -= 1
    if e < emin:
        e = emin
    q = v / Fraction(2) ** e
    m = q.numerator // q.denominator
    r = q - m
    if r > Fraction(1, 2) or (r == Fraction(1, 2) and (m & 1)):
        m += 1
    if m == 2 ** p:
        m //= 2
        e += 1
    if e > emax:
        return 'inf'
    return m * Fraction(2) ** e


def float_value(s, kind):
    """value of literal s in float ('f') or double ('d'): python float, or NAN; raises Skip in the documented
    out-of-bound zones (doc/schema.xml 'out-of-bound float values' is an implementation-defined interpretation)."""
    lx = parse_float_lex(s)
    if lx is None:
        return None
    if lx == 'nan':
        return NAN
    if lx == 'inf':
        return PINF
    if lx == '-inf':
        return NINF
    _, v, neg = lx
    fmt = FLT if kind == 'f' else DBL
    maxv = (2 ** fmt['p'] - 1) * Fraction(2) ** fmt['emax']
    minsub = Fraction(2) ** fmt['emin']
    minnorm = Fraction(2) ** (fmt['emin'] + fmt['p'] - 1)
    if v > maxv:
        if v > 2 ** fmt['p'] * Fraction(2) ** fmt['emax']:
            r = PINF                               # both IEEE rounding and the documented conversion say INF
        else:
            raise Skip('float:overflow-threshold-zone')
    elif v != 0 and v < minsub:
        raise Skip('float:underflow-zone')         # documented: converted to zero; IEEE: rounds to 0 or min subnormal
    elif kind == 'd' and v != 0 and v < minnorm:
        raise Skip('double:subnormal-zone')        # documented: values below DBL_MIN are converted to zero
    else:
        rb = round_binary(v, fmt)
        if rb == 'inf':
            raise Skip('float:overflow-threshold-zone')
        r = float(rb)
    if neg:
        r = -r
    if r == 0:
        r = 0.0                                    # one zero in the XSD 1.0 value space
    return r


def canon_float(x):
    """canonical lexical form of a float/double value given as python float / NAN (shortest digits are NOT required by
    XSD 1.0: any mantissa that maps to the value is canonical if normalised) -> returns None (not unique)"""
    return None


def canon_float_of_literal(s):
    """XSD 1.0 2e 3.2.4.2: normalise the literal: one non-zero digit before the point, at least one after, E exponent"""
    if s in ('INF', '-INF', 'NaN'):
        return s
    m = _flt_re.match(s)
    sign, ip, fp, ex = m.group(1), m.group(2) or '', m.group(3) or '', m.group(4)
    e = int(ex) if ex is not None else 0
    digits = ip + fp
    pointpos = len(ip)
    st = digits.lstrip('0')
    if not st:
        return '0.0E0'
    lead = len(digits) - len(st)
    st2 = st.rstrip('0') or '0'
    exp = e + (pointpos - lead - 1)
    mant = st2[0] + '.' + (st2[1:] or '0')
    return ('-' if sign == '-' else '') + mant + 'E' + str(exp)


def cmp_float(a, b):
    """XSD 1.0 2e order: NaN equals itself, incomparable with everything else.  -> -1/0/1/2"""
    if a == NAN or b == NAN:
        return 0 if a == b else 2
    return (a > b) - (a < b)


# ---------------------------------------------------------------------------------------------------------------
#  date/time
# ---------------------------------------------------------------------------------------------------------------
def is_leap(y):
    return (y % 4 == 0 and y % 100 != 0) or y % 400 == 0


def days_in_month(y, m):
    if m == 2:
        return 29 if is_leap(y) else 28
    return 30 if m in (4, 6, 9, 11) else 31


def days_from_civil(y, m, d):
    """days since 1970-01-01, proleptic Gregorian, any integer (astronomical) year"""
    y -= m <= 2
    era = (y if y >= 0 else y - 399) // 400
    yoe = y - era * 400
    doy = (153 * (m + (-3 if m > 2 else 9)) + 2) // 5 + d - 1
    doe = yoe * 365 + yoe // 4 - yoe // 100 + doy
    return era * 146097 + doe - 719468


def civil_from_days(z):
    z += 719468
    era = (z if z >= 0 else z - 146096) // 146097
    doe = z - era * 146097
    yoe = (doe - doe // 1460 + doe // 36524 - doe // 146096) // 365
    y = yoe + era * 400
    doy = doe - (365 * yoe + yoe // 4 - yoe // 100)
    mp = (5 * doy + 2) // 153
    d = doy - (153 * mp + 2) // 5 + 1
    m = mp + (3 if mp < 10 else -9)
    return (y + (m <= 2), m, d)


_tz_re = r'(Z|[+-][0-9]{2}:[0-9]{2})?'
_year_re = r'(-?[0-9]{4,})'
_sec_re = r'([0-9]{2})(?:\.([0-9]+))?'
DT_RE = {
    'dateTime': re.compile(_year_re + r'-([0-9]{2})-([0-9]{2})T([0-9]{2}):([0-9]{2}):' + _sec_re + _tz_re + r'\Z'),
    'date': re.compile(_year_re + r'-([0-9]{2})-([0-9]{2})' + _tz_re + r'\Z'),
    'time': re.compile(r'([0-9]{2}):([0-9]{2}):' + _sec_re + _tz_re + r'\Z'),
    'gYearMonth': re.compile(_year_re + r'-([0-9]{2})' + _tz_re + r'\Z'),
    'gYear': re.compile(_year_re + _tz_re + r'\Z'),
    'gMonthDay': re.compile(r'--([0-9]{2})-([0-9]{2})' + _tz_re + r'\Z'),
    'gDay': re.compile(r'---([0-9]{2})' + _tz_re + r'\Z'),
    'gMonth': re.compile(r'--([0-9]{2})' + _tz_re + r'\Z'),
}
DT_TYPES = tuple(DT_RE)


class DT:
    """a date/time value: fields may be None when the type has no such field; tz in minutes or None"""
    __slots__ = ('kind', 'y', 'mo', 'd', 'h', 'mi', 's', 'tz', 'h24', 'z')

    def __init__(self, kind, y=None, mo=None, d=None, h=None, mi=None, s=None, tz=None, h24=False, z=False):
        self.kind, self.y, self.mo, self.d, self.h, self.mi, self.s, self.tz, self.h24 = kind, y, mo, d, h, mi, s, tz, h24
        self.z = z            # time zone written as 'Z' (only used by the HOUR24_NOT_ROLLED diagnosis)

    def key(self):
        return (self.kind, self.y, self.mo, self.d, self.h, self.mi, self.s, self.tz)

    def __repr__(self):
        return 'DT%r' % (self.key(),)


def _parse_tz(t):
    if t is None:
        return None, True
    if t == 'Z':
        return 0, True
    hh, mm = int(t[1:3]), int(t[4:6])
    if hh > 14 or mm > 59 or (hh == 14 and mm != 0):
        return None, False
    v = hh * 60 + mm
    return (-v if t[0] == '-' else v), True


def _parse_year(ys):
    neg = ys.startswith('-')
    digs = ys[1:] if neg else ys
    if len(digs) > 4 and digs[0] == '0':
        return None
    y = int(digs)
    if y == 0:
        raise Skip('datetime:year-0000')
    if len(digs) > 9:
        raise Skip('datetime:huge-year')
    return -y if neg else y


def parse_datetime(kind, s):
    """-> DT or None (not in the lexical space); raises Skip at grey spots"""
    m = DT_RE[kind].match(s)
    if not m:
        if kind == 'gMonth' and re.match(r'--[0-9]{2}--' + _tz_re + r'\Z', s):
            raise Skip('datetime:gMonth---MM--form')
        return None
    g = list(m.groups())
    tzs = g.pop()
    tz, ok = _parse_tz(tzs)
    if not ok:
        return None
    v = DT(kind, tz=tz, z=(tzs == 'Z'))
    if kind in ('dateTime', 'date', 'gYearMonth', 'gYear'):
        v.y = _parse_year(g.pop(0))
        if v.y is None:
            return None
    if kind in ('dateTime', 'date', 'gYearMonth', 'gMonthDay', 'gMonth'):
        v.mo = int(g.pop(0))
        if not 1 <= v.mo <= 12:
            return None
    if kind in ('dateTime', 'date', 'gMonthDay', 'gDay'):
        v.d = int(g.pop(0))
        if v.d < 1:
            return None
        if kind == 'gDay':
            if v.d > 31:
                return None
        elif kind == 'gMonthDay':
            if v.d > days_in_month(2000, v.mo):
                return None
        else:
            if v.d > 31:
                return None
            if v.y < 0 and v.mo == 2 and v.d == 29:
                raise Skip('datetime:leap-day-BCE')
            if v.d > days_in_month(v.y if v.y > 0 else v.y + 1, v.mo):
                return None
    if kind in ('dateTime', 'time'):
        v.h, v.mi = int(g.pop(0)), int(g.pop(0))
        ss, fs = g.pop(0), g.pop(0)
        if v.mi > 59:
            return None
        if int(ss) == 60:
            raise Skip('datetime:leap-second-60')
        if int(ss) > 60:
            return None
        v.s = Fraction(int(ss + (fs or '')), 10 ** len(fs or ''))
        if v.h == 24:
            if v.mi != 0 or v.s != 0:
                return None
            v.h24 = True
        elif v.h > 24:
            return None
    return v


_REF = dict(y=1972, mo=12, d=31, h=0, mi=0, s=Fraction(0))   # only used to line up fields of the same type


HOUR24_NOT_ROLLED = False        # diagnosis only: hour 24 stays on its day when no real offset forces a normalisation


def dt_timeline(v, tz_default=None):
    """seconds on the time line of the starting instant (Fraction); tz_default minutes used when v has no time zone"""
    if HOUR24_NOT_ROLLED and v.h24 and (v.tz is None or v.z):
        v2 = DT(v.kind, v.y, v.mo, v.d, v.h, v.mi, v.s, v.tz, False)
        return dt_timeline(v2, tz_default) - Fraction(1, 10 ** 12)      # after every instant of its day, before the next midnight
    y = v.y if v.y is not None else _REF['y']
    if y < 0:
        y += 1                     # XSD 1.0: no year zero
    mo = v.mo if v.mo is not None else (1 if v.kind in ('gYear',) else _REF['mo'] if v.kind in ('gDay', 'time') else 1)
    d = v.d if v.d is not None else (1 if v.kind in ('gYear', 'gYearMonth', 'gMonth') else _REF['d'])
    if v.kind == 'gMonthDay' or v.kind == 'gMonth':
        y = 1972
    if v.kind == 'gDay':
        y, mo = 1972, 12
    h = v.h or 0
    mi = v.mi or 0
    s = v.s or Fraction(0)
    tz = v.tz if v.tz is not None else (tz_default or 0)
    return Fraction(days_from_civil(y, mo, d) * 86400 + h * 3600 + mi * 60) + s - tz * 60


def dt_crosses(v):
    """True when normalising the value to UTC (or hour 24) moves it across a boundary of a field the type does not
    carry (time across midnight, gDay/gMonthDay/... across their period): XSD 1.0 is not consistent there."""
    if v.tz in (None, 0) and not v.h24:
        return False
    if v.kind == 'dateTime':
        return False
    if v.kind == 'time':
        t = (v.h or 0) * 60 + (v.mi or 0) - (v.tz or 0)
        return v.h24 or t < 0 or t >= 1440
    return v.tz not in (None, 0)       # date and g-types with a non-zero offset: recoverable-timezone subtleties


def cmp_datetime(a, b):
    """order relation of 3.2.7.4 -> -1/0/1/2(indeterminate); raises Skip at grey spots"""
    for v in (a, b):
        if v.y is not None and v.y < 0 and (v.tz not in (None, 0)):
            raise Skip('datetime:BCE-with-offset')
        if dt_crosses(v):
            raise Skip('datetime:normalisation-crosses-period:' + v.kind)
    if (a.tz is None) == (b.tz is None):
        ta, tb = dt_timeline(a), dt_timeline(b)
        return (ta > tb) - (ta < tb)
    if a.tz is not None:        # a has a time zone, b has none
        ta = dt_timeline(a)
        if ta < dt_timeline(b, 14 * 60):
            return -1
        if ta > dt_timeline(b, -14 * 60):
            return 1
        return 2
    r = cmp_datetime(b, a)
    return r if r == 2 else -r


def _fmt_sec(s):
    whole = int(s)
    frac = s - whole
    out = '%02d' % whole
    if frac:
        digs = ''
        while frac and len(digs) < 60:
            frac *= 10
            dgt = int(frac)
            digs += str(dgt)
            frac -= dgt
        out += '.' + digs
    return out


def _fmt_year(y):
    return ('-' if y < 0 else '') + '%04d' % abs(y)


def canon_datetime(v):
    """canonical literal for dateTime / time (3.2.7.2, 3.2.8.2) and for date without offset; None = not modelled"""
    if v.kind == 'dateTime':
        if v.y < 0 and (v.tz not in (None, 0) or v.h24):
            return None
        tot = dt_timeline(v)            # UTC if zoned, local otherwise
        days, rem = divmod(tot, 86400)
        y, mo, d = civil_from_days(int(days))
        if v.y < 0:
            y -= 1
        if y <= 0:
            return None
        h, rem = divmod(rem, 3600)
        mi, s = divmod(rem, 60)
        return '%s-%02d-%02dT%02d:%02d:%s%s' % (_fmt_year(y), mo, d, int(h), int(mi), _fmt_sec(s), 'Z' if v.tz is not None else '')
    if v.kind == 'time':
        t = ((v.h or 0) * 3600 + (v.mi or 0) * 60 + v.s - (v.tz or 0) * 60) % 86400
        h, rem = divmod(t, 3600)
        mi, s = divmod(rem, 60)
        return '%02d:%02d:%s%s' % (int(h), int(mi), _fmt_sec(s), 'Z' if v.tz is not None else '')
    if v.kind == 'date' and v.tz in (None, 0):
        return '%s-%02d-%02d%s' % (_fmt_year(v.y), v.mo, v.d, 'Z' if v.tz == 0 else '')
    return None


# ---- duration ---------------------------------------------------------------------------------------------------
_dur_re = re.compile(r'(-?)P(?:([0-9]+)Y)?(?:([0-9]+)M)?(?:([0-9]+)D)?(T(?:([0-9]+)H)?(?:([0-9]+)M)?(?:([0-9]+)(?:\.([0-9]+))?S)?)?\Z')


def parse_duration(s):
    """-> (months:int, seconds:Fraction) or None"""
    m = _dur_re.match(s)
    if not m:
        return None
    neg, Y, Mo, D, T, H, Mi, S, fS = m.groups()
    if Y is None and Mo is None and D is None and H is None and Mi is None and S is None:
        return None
    if T is not None and H is None and Mi is None and S is None:
        return None
    months = int(Y or 0) * 12 + int(Mo or 0)
    secs = Fraction(int(D or 0) * 86400 + int(H or 0) * 3600 + int(Mi or 0) * 60) + \
        (Fraction(int((S or '0') + (fS or '')), 10 ** len(fS or '')))
    if neg:
        months, secs = -months, -secs
    return (months, secs)


_DUR_REFS = ((1696, 9, 1), (1697, 2, 1), (1903, 3, 1), (1903, 7, 1))


def _add_dur(ref, dur):
    y, mo, d = ref
    months, secs = dur
    t = (y * 12 + (mo - 1)) + months
    y2, mo2 = divmod(t, 12)
    mo2 += 1
    d2 = min(d, days_in_month(y2, mo2))
    return Fraction(days_from_civil(y2, mo2, d2) * 86400) + secs


def cmp_duration(a, b):
    rs = set()
    for ref in _DUR_REFS:
        x, y = _add_dur(ref, a), _add_dur(ref, b)
        rs.add((x > y) - (x < y))
    if len(rs) == 1:
        return rs.pop()
    return 2


# ---------------------------------------------------------------------------------------------------------------
#  binary
# ---------------------------------------------------------------------------------------------------------------
_hex_re = re.compile(r'(?:[0-9a-fA-F]{2})*\Z')
_B64 = 'ABCDEFGHIJKLMNOPQRSTUVWXYZabcdefghijklmnopqrstuvwxyz0123456789+/'
_b64_re = re.compile(r'(?:(?:[A-Za-z0-9+/] ?){4})*(?:(?:[A-Za-z0-9+/] ?){3}[A-Za-z0-9+/]|(?:[A-Za-z0-9+/] ?){2}[AEIMQUYcgkosw048] ?=|[A-Za-z0-9+/] ?[AQgw] ?= ?=)?\Z')


def parse_hex(s):
    if not _hex_re.match(s):
        return None
    return bytes.fromhex(s)


def parse_b64(s):
    """XSD 1.0 2e 3.2.16 grammar, applied to the white-space-collapsed literal"""
    if not _b64_re.match(s):
        return None
    t = s.replace(' ', '')
    bits = 0
    nb = 0
    out = bytearray()
    for c in t:
        if c == '=':
            break
        bits = (bits << 6) | _B64.index(c)
        nb += 6
        if nb >= 8:
            nb -= 8
            out.append((bits >> nb) & 0xFF)
    return bytes(out)


def canon_b64(b):
    out = []
    for i in range(0, len(b), 3):
        ch = b[i:i + 3]
        n = int.from_bytes(ch + b'\0' * (3 - len(ch)), 'big')
        q = [_B64[(n >> 18) & 63], _B64[(n >> 12) & 63], _B64[(n >> 6) & 63], _B64[n & 63]]
        if len(ch) == 1:
            q[2] = q[3] = '='
        elif len(ch) == 2:
            q[3] = '='
        out.append(''.join(q))
    return ''.join(out)


# ---------------------------------------------------------------------------------------------------------------
#  anyURI: only clearly valid / clearly invalid strings are judged
# ---------------------------------------------------------------------------------------------------------------
_uri_unres = r"A-Za-z0-9\-_.!~*'()"
_uc = r"(?:[" + _uri_unres + r";@&=+$,]|%[0-9A-Fa-f]{2})"
_uq = r"(?:[" + _uri_unres + r";/?:@&=+$,]|%[0-9A-Fa-f]{2})"
_uri_clear_valid = re.compile(
    r'(?:'
    r'[A-Za-z][A-Za-z0-9+.\-]*://[A-Za-z0-9](?:[A-Za-z0-9\-]*[A-Za-z0-9])?(?:\.[A-Za-z](?:[A-Za-z0-9\-]*[A-Za-z0-9])?)*(?::[0-9]+)?(?:/' + _uc + r'*)*'      # scheme://host[:port]/path
    r'|[A-Za-z][A-Za-z0-9+.\-]*:[A-Za-z0-9]' + _uq + r'*'                                                                                              # scheme:opaque
    r'|(?:\.\./|\./|/)?' + _uc + r'+(?:/' + _uc + r'*)*'                                                         # relative / absolute path
    r')(?:\?' + _uq + r'*)?(?:#' + _uq + r'*)?\Z')


def judge_anyuri(s):
    """-> True (clearly valid under RFC 2396+2732 after XLink escaping), False (clearly invalid), None (not judged)"""
    if s == '':
        return True
    if re.search(r'%(?![0-9A-Fa-f]{2})', s):
        return False                      # '%' is not escaped by the XLink algorithm: a malformed escape stays malformed
    if s.count('#') > 1:
        return False                      # fragment = *uric, '#' is not a uric and is not escaped either
    if any(ord(c) >= 0x80 or c in ' <>"{}|\\^`[]' for c in s):
        return None
    first = re.split(r'[/?#]', s, 1)[0]
    if ':' in first:
        scheme = first.split(':', 1)[0]
        if not re.match(r'[A-Za-z][A-Za-z0-9+.\-]*\Z', scheme):
            return None                   # e.g. "1a:b", ":a" -- invalid in RFC 2396 but implementations differ: not judged
    if s[:1] in '#?' and re.match(r'(?:\?' + _uq + r'*)?(?:#' + _uq + r'*)?\Z', s):
        return True
    if _uri_clear_valid.match(s):
        return True
    return None


_lang_re = re.compile(r'[a-zA-Z]{1,8}(-[a-zA-Z0-9]{1,8})*\Z')

# ---------------------------------------------------------------------------------------------------------------
#  primitive layer: lexical -> value, equality/order, canonical
# ---------------------------------------------------------------------------------------------------------------
STRING_FAMILY = ('string', 'normalizedString', 'token', 'language', 'NMTOKEN', 'Name', 'NCName', 'ID', 'IDREF', 'ENTITY')
INT_FAMILY = tuple(INT_RANGES)
PRIMS = ('string', 'boolean', 'decimal', 'float', 'double', 'duration') + DT_TYPES + ('hexBinary', 'base64Binary', 'anyURI', 'QName', 'NOTATION')


BINARY_AS_STRING = False           # diagnosis only: hexBinary / base64Binary values are equal only when their literals are


class LexBytes(bytes):
    def __new__(cls, b, lex):
        o = bytes.__new__(cls, b)
        o.lex = lex
        return o

    def __eq__(self, other):
        return isinstance(other, LexBytes) and self.lex == other.lex

    def __hash__(self):
        return hash(self.lex)


DURATION_IGNORE_FRACTION = False   # diagnosis only: drop fractional seconds of durations
UNION_ENUM_ANY_MEMBER = False      # diagnosis only: a union enumeration matches when ANY member type finds the two literals equal
FLOAT_AS_DOUBLE = False      # diagnosis only: evaluate xs:float literals with binary64 precision (see c09.Judge.alt_float)


def prim_value(prim, s):
    """value of the normalised literal s in primitive type prim, or None if s is not in the lexical space.
    May raise Skip."""
    if prim == 'string':
        return s
    if prim == 'boolean':
        return {'true': True, '1': True, 'false': False, '0': False}.get(s)
    if prim == 'decimal':
        return parse_decimal(s)
    if prim == 'float':
        return float_value(s, 'd' if FLOAT_AS_DOUBLE else 'f')
    if prim == 'double':
        return float_value(s, 'd')
    if prim == 'duration':
        d = parse_duration(s)
        if d is not None and DURATION_IGNORE_FRACTION:
            d = (d[0], Fraction(int(d[1])))
        return d
    if prim in DT_RE:
        return parse_datetime(prim, s)
    if prim == 'hexBinary':
        b = parse_hex(s)
        return LexBytes(b, s) if (BINARY_AS_STRING and b is not None) else b
    if prim == 'base64Binary':
        b = parse_b64(s)
        return LexBytes(b, s) if (BINARY_AS_STRING and b is not None) else b
    if prim == 'anyURI':
        j = judge_anyuri(s)
        if j is None:
            raise Skip('anyURI:grey-zone')
        return s if j else None
    if prim == 'QName':
        if not _name_chars_known(s):
            raise Skip('name:char-class-edition-dependent')
        return s if is_qname(s) else None
    raise Skip('prim:' + prim)


def prim_cmp(prim, a, b):
    """-1/0/1/2 for ordered primitives; 0 / 3(not equal) for unordered ones"""
    if prim == 'decimal':
        return (a > b) - (a < b)
    if prim in ('float', 'double'):
        return cmp_float(a, b)
    if prim == 'duration':
        return cmp_duration(a, b)
    if prim in DT_RE:
        return cmp_datetime(a, b)
    return 0 if a == b else 3


def prim_eq(prim, a, b):
    if prim in DT_RE:
        if dt_crosses(a) or dt_crosses(b):
            if a.key() == b.key():
                return True
            raise Skip('datetime:normalisation-crosses-period:' + prim)
    return prim_cmp(prim, a, b) == 0


ORDERED_PRIMS = ('decimal', 'float', 'double', 'duration') + DT_TYPES

# ---------------------------------------------------------------------------------------------------------------
#  type system
# ---------------------------------------------------------------------------------------------------------------
FACET_NAMES = ('length', 'minLength', 'maxLength', 'pattern', 'enumeration', 'whiteSpace', 'maxInclusive', 'maxExclusive',
               'minInclusive', 'minExclusive', 'totalDigits', 'fractionDigits')


class Type:
    """variety: 'atomic' | 'list' | 'union'.  facets: list of (name, value) of THIS derivation step."""

    def __init__(self, name, variety, base=None, facets=(), item=None, members=(), builtin=False, prim=None, lexrule=None):
        self.name, self.variety, self.base, self.facets = name, variety, base, list(facets)
        self.item, self.members, self.builtin = item, list(members), builtin
        self.prim = prim if prim else (base.prim if base is not None else None)
        self.lexrule = lexrule            # extra lexical rule of a built-in derived type (Name, NCName, language, ...)
        if variety != 'atomic' and base is not None:
            self.item, self.members = base.item, base.members

    def chain(self):
        t, out = self, []
        while t is not None:
            out.append(t)
            t = t.base
        return out              # most derived first

    def ws(self):
        if self.variety == 'list':
            return 'collapse'
        if self.variety == 'union':
            return None
        for t in self.chain():
            for n, v in t.facets:
                if n == 'whiteSpace':
                    return v
        return 'preserve' if self.prim == 'string' else 'collapse'

    def builtin_ancestor(self):
        for t in self.chain():
            if t.builtin:
                return t
        return None

    def facet_kinds(self):
        ks = set()
        for t in self.chain():
            if t.builtin:
                break
            for n, _ in t.facets:
                ks.add(n)
        return ks


def _mk_builtins():
    B = {}

    def A(name, prim, base=None, facets=(), lexrule=None):
        B[name] = Type(name, 'atomic', base=B.get(base), facets=facets, builtin=True, prim=prim, lexrule=lexrule)

    A('string', 'string')
    A('normalizedString', 'string', 'string', [('whiteSpace', 'replace')])
    A('token', 'string', 'normalizedString', [('whiteSpace', 'collapse')])
    A('language', 'string', 'token', lexrule='language')
    A('NMTOKEN', 'string', 'token', lexrule='NMTOKEN')
    A('Name', 'string', 'token', lexrule='Name')
    A('NCName', 'string', 'Name', lexrule='NCName')
    for n in ('ID', 'IDREF', 'ENTITY'):
        A(n, 'string', 'NCName', lexrule='NCName')
    A('boolean', 'boolean')
    A('decimal', 'decimal')
    A('integer', 'decimal', 'decimal', lexrule='integer')
    for n, par in (('nonPositiveInteger', 'integer'), ('negativeInteger', 'nonPositiveInteger'), ('long', 'integer'), ('int', 'long'),
                   ('short', 'int'), ('byte', 'short'), ('nonNegativeInteger', 'integer'), ('unsignedLong', 'nonNegativeInteger'),
                   ('unsignedInt', 'unsignedLong'), ('unsignedShort', 'unsignedInt'), ('unsignedByte', 'unsignedShort'),
                   ('positiveInteger', 'nonNegativeInteger')):
        lo, hi = INT_RANGES[n]
        f = []
        if lo is not None:
            f.append(('minInclusive', str(lo)))
        if hi is not None:
            f.append(('maxInclusive', str(hi)))
        A(n, 'decimal', par, f, lexrule='integer')
    for n in ('float', 'double', 'duration') + DT_TYPES + ('hexBinary', 'base64Binary', 'anyURI', 'QName', 'NOTATION'):
        A(n, n)
    for n, it in (('NMTOKENS', 'NMTOKEN'), ('IDREFS', 'IDREF'), ('ENTITIES', 'ENTITY')):
        lt = Type(n + '#list', 'list', item=B[it], builtin=True)
        B[n] = Type(n, 'list', base=lt, facets=[('minLength', '1')], builtin=True)
    return B


BUILTINS = _mk_builtins()
BUILTIN_NAMES = tuple(n for n in BUILTINS)
XSVALUE_TYPES = tuple(n for n in BUILTINS if n not in ())


def lexrule_ok(rule, s):
    if rule == 'integer':
        return _int_re.match(s) is not None
    if rule == 'language':
        return _lang_re.match(s) is not None
    if rule in ('NMTOKEN', 'Name', 'NCName'):
        if not _name_chars_known(s):
            raise Skip('name:char-class-edition-dependent')
        return {'NMTOKEN': is_nmtoken, 'Name': is_name, 'NCName': is_ncname}[rule](s)
    return True


# safe pattern subset: python's re agrees with XSD regex semantics on these (ASCII literals, [..] of ASCII ranges,
# ? * + {n,m} | ( ) and '.'); everything else is the business of property C11
_safe_pat = re.compile(r'(?:[A-Za-z0-9 :_=\-]|\\[.\-+]|\[\^?(?:[A-Za-z0-9 :.+/=]|\\-|[A-Za-z0-9]-[A-Za-z0-9])+\]|[()|?*+.]|\{[0-9]+(?:,[0-9]*)?\})*\Z')


_pat_cache = {}


def pattern_match(p, s):
    if not _safe_pat.match(p):
        raise Skip('pattern:outside-safe-subset')
    if '.' in p.replace('\\.', '') and ('\n' in s or '\r' in s):
        raise Skip('pattern:dot-vs-newline')
    rx = _pat_cache.get(p)
    if rx is None:
        try:
            rx = re.compile(p.replace('(', '(?:'))
        except re.error:
            rx = False
        _pat_cache[p] = rx
    if rx is False:
        raise Skip('pattern:python-rejects')
    return rx.fullmatch(s) is not None


STRING_LENGTH_UTF16 = False        # diagnosis only: length of string types counted in UTF-16 code units


def str_length(s):
    if STRING_LENGTH_UTF16:
        return len(s) + sum(1 for c in s if ord(c) > 0xFFFF)
    return len(s)              # code points (python str): XSD 'length' of string types counts characters


class Evaluator:
    """accept/reject of a normalised literal against a Type"""

    def __init__(self):
        self.enum_cache = {}

    # -- value of literal in the type (no facets of restriction steps except built-in ones) ------------------------
    def value_of(self, t, s):
        """-> (ok, value-descriptor).  value-descriptor: ('a', prim, v) | ('l', [descr...])"""
        vd = self.evaluate(t, s)
        return vd

    def evaluate(self, t, s):
        try:
            return self._eval(t, s)
        except Skip as e:
            return Verdict(SKIP, e.reason)

    def _eval(self, t, s):
        if t.variety == 'atomic':
            return self._eval_atomic(t, s)
        if t.variety == 'list':
            return self._eval_list(t, s)
        return self._eval_union(t, s)

    def _eval_atomic(self, t, s):
        prim = t.prim
        if prim == 'NOTATION':
            raise Skip('NOTATION')
        chain = t.chain()
        # lexical rules of the built-in ancestors
        for a in chain:
            if a.lexrule and not lexrule_ok(a.lexrule, s):
                return Verdict(REJECT, 'lex:' + a.lexrule)
        if prim == 'string':
            ws = t.ws()
            if ws_apply(ws, s) != s:
                # the literal handed to the validator was not normalised: not a case the model is asked about
                raise Skip('ws:not-normalised')
        v = prim_value(prim, s)
        if v is None:
            return Verdict(REJECT, 'lex:' + prim)
        bt = t.builtin_ancestor()
        if bt is not None and bt.name in UNSIGNED and s[:1] in '+-':
            raise Skip('integer:sign-on-unsigned')
        why = self._facets_atomic(t, prim, s, v)
        if why:
            return Verdict(REJECT, why, v, prim)
        return Verdict(ACCEPT, '', v, prim)

    def _enum_values(self, t, lits, parse):
        k = (id(t), tuple(lits))
        if k not in self.enum_cache:
            self.enum_cache[k] = [parse(x) for x in lits]
        return self.enum_cache[k]

    def _facets_atomic(self, t, prim, s, v):
        fails = []
        for a in t.chain():
            pats = [fv for fn, fv in a.facets if fn == 'pattern']
            if pats and not any(pattern_match(p, s) for p in pats):
                fails.append('pattern')
            enums = [fv for fn, fv in a.facets if fn == 'enumeration']
            if enums:
                base = a.base
                evs = []
                for lit in enums:
                    lv = self.evaluate(base, ws_apply(base.ws() or 'collapse', lit))
                    if lv.v == SKIP:
                        raise Skip('enum-literal:' + lv.why)
                    if lv.v == ACCEPT:
                        evs.append(lv.value)
                if not any(prim_eq(prim, v, e) for e in evs):
                    fails.append('enumeration')
            for fn, fv in a.facets:
                if fn in ('pattern', 'enumeration', 'whiteSpace'):
                    continue
                if fn in ('length', 'minLength', 'maxLength'):
                    if prim in ('QName', 'NOTATION'):
                        raise Skip('length-on-QName')
                    n = int(fv)
                    ln = len(v) if prim in ('hexBinary', 'base64Binary') else str_length(s)
                    if prim == 'string' and any(ord(c) > 0xFFFF for c in s):
                        # stated separately so that a code-unit/character confusion gets its own key
                        pass
                    if (fn == 'length' and ln != n) or (fn == 'minLength' and ln < n) or (fn == 'maxLength' and ln > n):
                        fails.append(fn)
                elif fn in ('maxInclusive', 'maxExclusive', 'minInclusive', 'minExclusive'):
                    bv = prim_value(prim, ws_collapse(fv))
                    if bv is None:
                        raise Skip('bound-literal-invalid')
                    if prim in ('float', 'double') and (v == NAN or bv == NAN):
                        raise Skip('float:NaN-vs-bounds')
                    c = prim_cmp(prim, v, bv)
                    if c == 2:
                        raise Skip('bounds:indeterminate-order')
                    ok = {'maxInclusive': c <= 0, 'maxExclusive': c < 0, 'minInclusive': c >= 0, 'minExclusive': c > 0}[fn]
                    if not ok:
                        fails.append(fn)
                elif fn == 'totalDigits':
                    i0, n0 = dec_digits(v)
                    td = int(fv)
                    if not (abs(i0) < 10 ** td and n0 <= td):
                        fails.append(fn)
                elif fn == 'fractionDigits':
                    i0, n0 = dec_digits(v)
                    if n0 > int(fv):
                        fails.append(fn)
        if fails:
            return 'facet:' + '+'.join(sorted(set(fails)))
        return ''

    def _eval_list(self, t, s):
        if ws_collapse(s) != s:
            raise Skip('ws:not-normalised')
        toks = s.split(' ') if s else []
        item = t.item
        vals = []
        for tok in toks:
            r = self._eval(item, tok)
            if r.v == REJECT:
                return Verdict(REJECT, 'item:' + r.why)
            vals.append(r)
        fails = []
        for a in t.chain():
            pats = [fv for fn, fv in a.facets if fn == 'pattern']
            if pats and not any(pattern_match(p, s) for p in pats):
                fails.append('pattern')
            enums = [fv for fn, fv in a.facets if fn == 'enumeration']
            if enums:
                hit = False
                for lit in enums:
                    lv = self.evaluate(a.base, ws_collapse(lit))
                    if lv.v == SKIP:
                        raise Skip('enum-literal:' + lv.why)
                    if lv.v == ACCEPT and self.list_eq(vals, lv.value):
                        hit = True
                if not hit:
                    fails.append('enumeration')
            for fn, fv in a.facets:
                if fn in ('length', 'minLength', 'maxLength'):
                    n, ln = int(fv), len(toks)
                    if (fn == 'length' and ln != n) or (fn == 'minLength' and ln < n) or (fn == 'maxLength' and ln > n):
                        fails.append(fn)
        if fails:
            return Verdict(REJECT, 'facet:' + '+'.join(sorted(set(fails))), vals, 'list')
        return Verdict(ACCEPT, '', vals, 'list')

    def list_eq(self, xs, ys):
        if len(xs) != len(ys):
            return False
        return all(self.val_eq(x, y) for x, y in zip(xs, ys))

    def val_eq(self, x, y):
        """equality of two accepted Verdicts in the value space"""
        if x.prim == 'list' or y.prim == 'list':
            return x.prim == y.prim and self.list_eq(x.value, y.value)
        if x.prim != y.prim:
            return False
        return prim_eq(x.prim, x.value, y.value)

    def loose_eq(self, m, s1, s2):
        """diagnosis helper: are the two literals equal when both are simply mapped through the PRIMITIVE type of member m
        (no facets, no validity requirement)?  Unknown (Skip) counts as 'could be'."""
        try:
            if m.variety == 'atomic':
                if m.prim in ('string', 'anyURI', 'QName', 'NOTATION'):
                    return s1 == s2
                if m.prim in ('decimal', 'float', 'double'):
                    # the comparison functions take a digit-less literal ('.', '-.') for zero (KF-C09-01/02)
                    s1, s2 = (re.sub(r'^([+-]?)\.$', r'\g<1>0', x) for x in (s1, s2))
                v1, v2 = prim_value(m.prim, s1), prim_value(m.prim, s2)
                return v1 is not None and v2 is not None and prim_eq(m.prim, v1, v2)
            if m.variety == 'list':
                a, b = s1.split(' '), s2.split(' ')
                return len(a) == len(b) and all(self.loose_eq(m.item, x, y) for x, y in zip(a, b))
            return any(self.loose_eq(x, s1, s2) for x in m.members)
        except Skip:
            return True

    def _eval_union(self, t, s):
        # white space: governed by the member type that validates (4.3.6); the model only answers when the literal is
        # unaffected by every normalisation
        if ws_collapse(s) != s:
            raise Skip('union:whitespace-sensitive-literal')
        hit = None
        for i, m in enumerate(t.members):
            r = self._eval(m, s)          # Skip propagates: an undecidable member makes the union undecidable
            if r.v == ACCEPT:
                hit = (i, r)
                break
        if hit is None:
            return Verdict(REJECT, 'union:no-member')
        i, r = hit
        fails = []
        for a in t.chain():
            pats = [fv for fn, fv in a.facets if fn == 'pattern']
            if pats and not any(pattern_match(p, s) for p in pats):
                fails.append('pattern')
            enums = [fv for fn, fv in a.facets if fn == 'enumeration']
            if enums:
                ok = False
                for lit in enums:
                    lv = self.evaluate(a.base, ws_collapse(lit))
                    if lv.v == SKIP:
                        raise Skip('enum-literal:' + lv.why)
                    if lv.v == ACCEPT and self.val_eq(r, lv):
                        ok = True
                    if not ok and UNION_ENUM_ANY_MEMBER:
                        if any(self.loose_eq(m, s, ws_collapse(lit)) for m in t.members):
                            ok = True
                if not ok:
                    fails.append('enumeration')
        if fails:
            return Verdict(REJECT, 'facet:' + '+'.join(sorted(set(fails))), r.value, r.prim, member=i)
        return Verdict(ACCEPT, '', r.value, r.prim, member=i)

    # -- canonical form -------------------------------------------------------------------------------------------
    def canonical(self, t, s, verdict):
        """expected canonical literal of an ACCEPTED literal, or None where XSD 1.0 defines none / not modelled"""
        if t.variety != 'atomic':
            return None
        prim, v = t.prim, verdict.value
        if prim == 'boolean':
            return 'true' if v else 'false'
        if prim == 'decimal':
            if any(a.lexrule == 'integer' for a in t.chain()):
                return str(int(v))
            return canon_decimal(v)
        if prim in ('float', 'double'):
            if v == NAN:
                return 'NaN'
            if v in (PINF, NINF):
                if s in ('INF', '-INF'):
                    return s
                return None                # out-of-range literal: separate differential rule
            return canon_float_of_literal(s)
        if prim in ('dateTime', 'time', 'date'):
            return canon_datetime(v)
        if prim == 'hexBinary':
            return v.hex().upper()
        if prim == 'base64Binary':
            return canon_b64(v)
        if prim == 'string' or prim in ('anyURI', 'QName'):
            return s
        return None


# ---------------------------------------------------------------------------------------------------------------
#  literal classification (stable construct classes for violation keys)
# ---------------------------------------------------------------------------------------------------------------
def shape(s, maxlen=24):
    """coarse, seed-independent shape of a literal: digit runs -> 9, letter runs -> a, repeated symbols kept"""
    if s == '':
        return 'empty'
    out = []
    for c in s:
        if c in '0123456789':
            k = '9'
        elif c.isalpha() and ord(c) < 0x80:
            k = c if c in 'EeTZPINFaYMDHS' and len(s) < 40 else 'a'
        elif ord(c) >= 0x10000:
            k = 'U'
        elif ord(c) >= 0x80:
            k = 'u'
        elif c in WS_CHARS:
            k = '_'
        else:
            k = c
        if not out or out[-1] != k or k not in '9au_U':
            out.append(k)
    r = ''.join(out)
    return r if len(r) <= maxlen else r[:maxlen] + '~'


def classify(tname, prim, s):
    """construct class of literal s for type tname: a short tag built from lexical features"""
    f = []
    if prim in ('decimal', 'float', 'double'):
        if s[:1] == '+':
            f.append('plus')
        elif s[:1] == '-':
            f.append('minus')
        body = s.lstrip('+-')
        mant = re.split('[eE]', body)[0]
        if re.match(r'0[0-9]', mant):
            f.append('lead0')
        if '.' in mant:
            ip, _, fp = mant.partition('.')
            if not ip and not fp:
                f.append('lone-dot')
            elif not ip:
                f.append('no-int-part')
            elif not fp:
                f.append('no-frac-part')
            elif fp.endswith('0'):
                f.append('trail0')
            if fp.startswith('0') and not ip.strip('0') and fp.strip('0'):
                f.append('frac-lead0')
        if re.search('[eE]', body):
            f.append('exp')
            ex = re.split('[eE]', body, 1)[1]
            if ex[:1] == '+':
                f.append('exp-plus')
            if re.match(r'[+-]?0[0-9]', ex):
                f.append('exp-lead0')
            if not re.match(r'[+-]?[0-9]+\Z', ex):
                f.append('exp-malformed')
        if body in ('INF', 'NaN') or s in ('INF', '-INF', 'NaN'):
            f.append('special')
        if not re.match(r'[0-9.eE+\-]*\Z', body) and 'special' not in f:
            f.append('alien-char')
        if ' ' in s or '\t' in s:
            f.append('ws')
        if re.match(r'[+-]?0*\.?0*([eE].*)?\Z', s) and re.search('[0-9]', mant):
            f.append('zero')
        if prim in ('float', 'double'):
            try:
                lx = parse_float_lex(s)
            except Skip:
                lx = 'huge'
            if lx == 'huge':
                f.append('huge-exponent')
            elif isinstance(lx, tuple) and lx[1] != 0:
                fmt = FLT if prim == 'float' else DBL
                if lx[1] > (2 ** fmt['p'] - 1) * Fraction(2) ** fmt['emax']:
                    f.append('gt-max')
                elif lx[1] < Fraction(2) ** (fmt['emin'] + (fmt['p'] - 1 if prim == 'double' else 0)):
                    f.append('lt-min')
        if not f:
            f.append('plain')
        return '+'.join(f)
    if prim in DT_RE or prim == 'duration':
        if prim == 'duration':
            if re.search(r'[PTYMDH](?=[YMDHS])', s.replace('PT', 'P', 1) if s.lstrip('-').startswith('PT') else s) or re.search(r'T[YMDHS]', s):
                return 'dur:designator-without-number'
            if re.search(r'\.(?![0-9])|(?<![0-9])\.', s):
                return 'dur:dot-no-digits'
            return 'dur:' + ('fracsec:' if '.' in s else '') + shape(re.sub('[0-9]+', '9', s))
        m = re.search(r'(Z|[+-][0-9]{2}:[0-9]{2})\Z', s)
        if m:
            f.append('tzZ' if m.group(1) == 'Z' else 'tz' + ('14' if m.group(1)[1:3] == '14' else 'hh') + (m.group(1)[0]))
        if re.search(r'T24:|^24:', s):
            f.append('hour24')
        if re.search(r':60(\.|Z|[+-]|\Z)', s):
            f.append('sec60')
        if re.search(r':[0-9]{2}\.[0-9]+', s):
            f.append('fracsec')
        if re.search(r'-02-29', s):
            f.append('feb29')
        if re.search(r'-02-30|-02-31|-04-31|-06-31|-09-31|-11-31', s):
            f.append('day-gt-month')
        if s.startswith('-') and prim in ('dateTime', 'date', 'gYearMonth', 'gYear'):
            f.append('neg-year')
        if re.match(r'-?[0-9]{5,}', s):
            f.append('long-year')
        if re.search(r'\.(?![0-9])', s):
            f.append('dot-no-digits')
        elif not DT_RE[prim].match(s):
            f.append('malformed:' + shape(s))
        return '+'.join(f) or 'plain'
    if prim == 'hexBinary':
        if re.search('[a-f]', s):
            f.append('lower')
        if len(s) % 2:
            f.append('odd-length')
        if not re.match(r'[0-9A-Fa-f]*\Z', s):
            f.append('alien-char')
        return '+'.join(f) or 'plain'
    if prim == 'base64Binary':
        if ' ' in s:
            f.append('space')
        if '=' in s:
            f.append('pad' + str(s.count('=')))
        n = len(re.sub('[ =]', '', s))
        f.append('len%%4=%d' % (len(s.replace(' ', '')) % 4))
        if any(ord(ch) > 0xFF for ch in s):
            f.append('char-above-U+00FF')
        elif not re.match(r'[A-Za-z0-9+/= ]*\Z', s):
            f.append('alien-char')
        return '+'.join(f)
    if prim == 'boolean':
        return 'bool:' + (s if s in CATALOGUE['boolean'] else shape(s))
    if prim == 'anyURI':
        if s == '':
            f.append('empty')
        if ' ' in s:
            f.append('space')
        if any(ord(c) >= 0x80 for c in s):
            f.append('nonascii')
        if any(c in '<>"{}|\\^`' for c in s):
            f.append('excluded-ascii')
        if any(c in '[]' for c in s):
            f.append('brackets')
        if re.search(r'%(?![0-9A-Fa-f]{2})', s):
            f.append('bad-escape')
        if s.count('#') > 1:
            f.append('multi-fragment')
        if re.match(r'[A-Za-z][A-Za-z0-9+.\-]*:', s):
            f.append('scheme' if not re.match(r'[A-Za-z][A-Za-z0-9+.\-]*:\Z', s) else 'scheme-only')
        elif ':' in re.split(r'[/?#]', s, 1)[0]:
            f.append('colon-in-first-segment')
        return '+'.join(f) or 'plain'
    # string family, QName
    if s == '':
        f.append('empty')
    if any(ord(c) > 0xFFFF for c in s):
        f.append('astral')
    elif any(ord(c) >= 0x80 for c in s):
        f.append('nonascii')
    if any(c in WS_CHARS for c in s):
        f.append('ws')
    if tname in ('Name', 'NCName', 'ID', 'IDREF', 'ENTITY', 'NMTOKEN', 'QName', 'language'):
        if ':' in s:
            f.append('colon%d' % min(s.count(':'), 3))
        if s and not _is_start(s[0], True):
            f.append('non-start-first')
        if any(not _is_namech(c, True) for c in s):
            f.append('non-name-char')
        if tname == 'language':
            f.append('lang:' + shape(s))
    return '+'.join(f) or 'plain'


# ---------------------------------------------------------------------------------------------------------------
#  generators
# ---------------------------------------------------------------------------------------------------------------
DIG = '0123456789'


def _digits(r, lo=1, hi=6):
    return ''.join(r.choice(DIG) for _ in range(r.randint(lo, hi)))


def gen_decimal(r):
    c = r.random()
    sign = r.choice(['', '', '', '+', '-'])
    if c < 0.25:
        return sign + _digits(r, 1, 20)
    if c < 0.7:
        return sign + _digits(r, 0, 8) + '.' + _digits(r, 0, 8)
    if c < 0.8:
        return sign + '0' * r.randint(1, 4) + _digits(r, 1, 4) + '.' + _digits(r, 1, 4) + '0' * r.randint(0, 4)
    if c < 0.9:
        return sign + r.choice(['0', '00', '0.0', '.0', '0.', '.', '-0', '+0.00'])
    return sign + _digits(r, 20, 40) + '.' + _digits(r, 20, 40)


def gen_integer_near(r, name):
    lo, hi = INT_RANGES[name]
    cands = [0, 1, -1]
    for b in (lo, hi):
        if b is not None:
            cands += [b, b - 1, b + 1, b * 10, b // 10]
    cands += [r.randint(-300, 300), r.randint(-2 ** 70, 2 ** 70), r.randint(-70000, 70000)]
    v = r.choice(cands)
    s = str(abs(v))
    z = r.random()
    if z < 0.2:
        s = '0' * r.randint(1, 3) + s
    sign = '-' if v < 0 else r.choice(['', '', '', '+'])
    if v == 0 and r.random() < 0.3:
        sign = r.choice(['-', '+'])
    return sign + s


def gen_float(r, kind):
    c = r.random()
    if c < 0.12:
        return r.choice(['INF', '-INF', 'NaN', '+INF', 'inf', 'nan', 'NAN', '-NaN', 'Infinity', 'INF ', '0', '-0', '0.0', '-0.0E0', '+0', '.0', '0.', '1E', 'E1', '1E1.5', '1e+', '.E1', '.'])
    sign = r.choice(['', '', '+', '-'])
    mant = r.choice([_digits(r, 1, 9), _digits(r, 0, 5) + '.' + _digits(r, 0 if r.random() < 0.2 else 1, 9), '1', '1.0', '9.9999999', '1.17549435', '3.4028235', '3.4028236',
                     '1.401298464', '1.7976931348623157', '1.7976931348623159', '2.2250738585072014', '4.9406564584124654', '16777216', '16777217', '9007199254740993'])
    if c < 0.5:
        return sign + mant
    ex = r.choice(['0', '1', '-1', '+5', '05', '-05', '38', '39', '-38', '-45', '-46', '-44', '308', '309', '-308', '-324', '-325', '-400', '400', '10', '-10', '22', '23'])
    if r.random() < 0.3:
        ex = str(r.randint(-60, 60))
    return sign + mant + r.choice('eE') + ex


def _tz(r):
    c = r.random()
    if c < 0.4:
        return ''
    if c < 0.6:
        return 'Z'
    return r.choice(['+00:00', '-00:00', '+14:00', '-14:00', '+14:01', '+13:59', '-13:59', '+15:00', '+05:30', '-08:00', '+01:00', '-01:00', '+12:60', '+1:00', '+0100', 'z', '+24:00', '-05:00', '+09:30'])


def _year(r):
    c = r.random()
    if c < 0.55:
        return '%04d' % r.choice([1, 4, 100, 400, 1582, 1696, 1697, 1899, 1900, 1903, 1904, 1970, 1972, 1999, 2000, 2001, 2004, 2023, 2024, 2100, 9999])
    if c < 0.76:
        return '%04d' % r.randint(1, 9999)
    if c < 0.8:
        return '-%04d' % r.choice([1, 4, 5, 100, 2000])
    if c < 0.9:
        return r.choice(['10000', '12345', '99999', '012345', '0000', '-0000', '999', '99', '+2000', '123456789', '2147483647', '2147483648', '2147483650'])
    return '%04d' % r.randint(1, 3000)


def _md(r, y=None):
    m = r.randint(1, 12) if r.random() < 0.85 else r.choice([0, 13, 2, 2, 12, 1])
    c = r.random()
    if c < 0.5:
        d = r.choice([1, 28, 29, 30, 31])
    elif c < 0.9:
        d = r.randint(1, 28)
    else:
        d = r.choice([0, 32, 31, 30, 29])
    return m, d


def _time(r):
    c = r.random()
    if c < 0.12:
        return r.choice(['24:00:00', '24:00:00.0', '24:00:00.000', '24:00:01', '24:01:00', '24:00:00.1', '25:00:00', '23:59:59', '23:59:60', '00:00:00', '12:60:00', '23:59:59.999', '00:00:60', '1:00:00', '12:00', '12:00:0', '12:00:00.', '12:00:00.5', '12:00:00.50', '12:00:05.0'])
    h, mi, s = r.randint(0, 23), r.randint(0, 59), r.randint(0, 59)
    t = '%02d:%02d:%02d' % (h, mi, s)
    if r.random() < 0.3:
        t += '.' + _digits(r, 1, 6)
    return t


def gen_datetime(r, kind):
    tz = _tz(r)
    if kind == 'dateTime':
        m, d = _md(r)
        sep = 'T' if r.random() < 0.97 else r.choice([' ', 't', ''])
        return '%s-%02d-%02d%s%s%s' % (_year(r), m, d, sep, _time(r), tz)
    if kind == 'date':
        m, d = _md(r)
        return '%s-%02d-%02d%s' % (_year(r), m, d, tz)
    if kind == 'time':
        return _time(r) + tz
    if kind == 'gYearMonth':
        m, _ = _md(r)
        return '%s-%02d%s' % (_year(r), m, tz)
    if kind == 'gYear':
        return _year(r) + tz
    if kind == 'gMonthDay':
        m, d = _md(r)
        return '--%02d-%02d%s' % (m, d, tz)
    if kind == 'gDay':
        _, d = _md(r)
        return r.choice(['---%02d', '---%02d', '---%02d', '--%02d', '----%02d', '---%d']) % d + tz
    if kind == 'gMonth':
        m, _ = _md(r)
        return r.choice(['--%02d', '--%02d', '--%02d', '--%02d--', '-%02d', '--%d']) % m + tz
    raise KeyError(kind)


def gen_duration(r):
    c = r.random()
    if c < 0.15:
        return r.choice(['P', 'PT', 'P1Y', 'P12M', 'P1M', 'P30D', 'P31D', 'P28D', 'P29D', 'P365D', 'P366D', 'P1YT', 'PT0S', 'P0D', '-P0D', 'P1D', 'PT24H', 'PT1440M', 'PT86400S', 'PT60S', 'PT1M',
                         'P1Y2M3DT4H5M6.7S', '-P1Y', 'P-1Y', 'P1Y-1M', 'PT1.S', 'PT.5S', 'PT1.5S', 'P1.5D', 'P1M2Y', 'PT1H1H', 'P1DT', '1Y', 'p1y', 'P 1Y', 'P1Y ', '+P1D', 'PT1S1M', 'P1W',
                         'P2M', 'P59D', 'P60D', 'P61D', 'P62D', 'P5M', 'P150D', 'P153D', 'P1Y1D', 'P366DT1S', 'PT0.000S', 'PT36H', 'P1DT12H'])
    s = r.choice(['', '', '', '-']) + 'P'
    any_ = False
    for u in 'YMD':
        if r.random() < 0.4:
            s += str(r.choice([0, 1, 2, 11, 12, 13, 28, 29, 30, 31, 59, 60, 365, 366, r.randint(0, 500)])) + u
            any_ = True
    if r.random() < 0.5 or not any_:
        t = ''
        for u in 'HM':
            if r.random() < 0.4:
                t += str(r.choice([0, 1, 23, 24, 25, 59, 60, 61, 1440, r.randint(0, 5000)])) + u
        if r.random() < 0.5 or not t:
            t += str(r.choice([0, 1, 59, 60, 61, 3600, 86400, r.randint(0, 100000)])) + ('.' + _digits(r, 1, 4) if r.random() < 0.3 else '') + 'S'
        s += 'T' + t
    return s


def gen_hex(r):
    c = r.random()
    n = r.choice([0, 1, 2, 3, 4, 5, 8, 16]) if c < 0.8 else r.randint(0, 40)
    alpha = r.choice(['0123456789ABCDEF', '0123456789abcdef', '0123456789abcdefABCDEF'])
    s = ''.join(r.choice(alpha) for _ in range(2 * n))
    if r.random() < 0.15:
        s += r.choice(alpha)
    if r.random() < 0.08:
        s = s[:r.randint(0, len(s))] + r.choice('gG xX-') + s[r.randint(0, len(s)):]
    return s


def gen_b64(r):
    n = r.choice([0, 1, 2, 3, 4, 5, 6, 7, 9, 12]) if r.random() < 0.8 else r.randint(0, 40)
    b = bytes(r.randrange(256) for _ in range(n))
    s = canon_b64(b)
    c = r.random()
    if c < 0.35:
        return s
    if c < 0.55:      # legal single spaces
        out = []
        for ch in s:
            out.append(ch)
            if r.random() < 0.3:
                out.append(' ')
        return ''.join(out).strip()
    if c < 0.7 and s.endswith('='):   # non-zero padding bits / missing padding
        body = s.rstrip('=')
        k = r.random()
        if k < 0.4:
            last = _B64[(_B64.index(body[-1]) | r.randint(1, 3 if s.endswith('==') is False else 15)) & 63]
            return body[:-1] + last + s[len(body):]
        if k < 0.7:
            return body
        return body + '=' * r.choice([1, 2, 3])
    if c < 0.8:
        return s.replace(' ', '') + r.choice(['=', '==', 'A', 'AA', 'AAA', '-', '_', '\u00e9'])
    if c < 0.9 and len(s) > 2:
        i = r.randint(0, len(s) - 1)
        return s[:i] + r.choice(['  ', '=', '-', '*']) + s[i:]
    return ''.join(r.choice(_B64 + '= ') for _ in range(r.randint(0, 12))).strip()


NAME_POOL_START = 'abcXYZ_' + SURE_START
NAME_POOL_CH = 'abcxyz019.-_' + SURE_START + SURE_NAMEONLY


def gen_name(r, colon=0):
    n = r.randint(0, 6)
    s = r.choice(NAME_POOL_START) + ''.join(r.choice(NAME_POOL_CH) for _ in range(n))
    c = r.random()
    if c < 0.12:
        s = r.choice('0.-' + SURE_NAMEONLY) + s          # bad start
    elif c < 0.2:
        i = r.randint(0, len(s))
        s = s[:i] + r.choice(SURE_NEVER) + s[i:]
    elif c < 0.23:
        s = ''
    if colon == 1 and r.random() < 0.5:
        s = r.choice(['p', 'q']) + ':' + s
    if colon and r.random() < 0.1:
        s = r.choice([':' + s, s + ':', 'p::' + s, 'p:q:' + s, 'p:' + '1' + s])
    return s


def gen_string(r):
    pool = 'ab AB\t\n\r09.-_:\u00e9\u4e2d\U0001D11E\U00010000<&>"\'  '
    return ''.join(r.choice(pool) for _ in range(r.choice([0, 1, 2, 3, 5, 8, 13])))


def gen_language(r):
    c = r.random()
    if c < 0.2:
        return r.choice(['en', 'en-US', 'x-klingon', 'i-navajo', 'de-CH-1901', 'abcdefgh', 'abcdefghi', 'en-', '-en', 'en--US', 'e1', 'en-1', 'a-b-c-d-e-f-g', 'en_US', 'EN', 'zh-Hant-TW', 'en-abcdefghi', '1en', ''])
    parts = [''.join(r.choice('abcXYZ') for _ in range(r.randint(0, 9)))]
    for _ in range(r.randint(0, 3)):
        parts.append(''.join(r.choice('abcXYZ019') for _ in range(r.randint(0, 9))))
    return '-'.join(parts)


def gen_anyuri(r):
    return r.choice(['', 'a', 'http://www.example.com/', 'http://www.example.com/a/b?q=1#frag', '../a/b', 'mailto:x@y.z', 'urn:a:b', 'http://a b/', 'a b', '%', '%G0', 'a%2', 'http://a/%zz', 'http://a/%41',
                     '#a', '#a#b', 'a#b#c', 'http://[::1]/', 'http://a/b c', 'ftp://h:21/x;type=a', '//h/p', '/abs', 'a/b/c', '?q', 'x:', 'http://a/\u00e9', '1a:b', ':a', 'a:b', 'http://a/{x}', 'a|b', 'http://h/%',
                     'http://www.example.com:80/', 'file:///C:/a', 'a%20b', 'http:///', 'http://', 'a^b', '\\\\a\\b', 'http://a/<x>', 'x y z', 'http://h/a%2Fb'])


def mutate(r, s):
    """single-edit near miss"""
    if not s:
        return r.choice(['', ' ', '0', 'a'])
    i = r.randrange(len(s))
    k = r.random()
    if k < 0.3:
        return s[:i] + s[i + 1:]
    if k < 0.6:
        return s[:i] + r.choice('0159+-.:eETZP ') + s[i:]
    if k < 0.85:
        return s[:i] + r.choice('0129+-.:aZ') + s[i + 1:]
    return s[:i] + s[i] + s[i:]


CATALOGUE = {
    'boolean': ['true', 'false', '1', '0', 'TRUE', 'True', 'FALSE', 'False', 'tRUE', 'yes', 'no', '', '00', '01', '10', '2', '-0', '+1', 'true ', ' true', 't', 'f', 'truee', 'fals', '1.0', 'on', 'T', 'F', 'Y', 'nil'],
    'decimal': ['0', '-0', '+0', '0.0', '.0', '0.', '.', '+.', '-.', '1', '+1', '-1', '01', '1.', '.1', '-.1', '+.1', '1.0', '1.10', '001.100', '1e1', '1E0', 'INF', 'NaN', '1,0', '1 0', '--1', '+-1', '1-', '1+', '1.0.0', '..1',
                '123456789012345678901234567890.123456789012345678901234567890', '0.000000000000000000000000000001', '٣', '1\u0660', '0x10', '1f', '', '-', '+', '1d', ' 1', '1 '],
    'float': ['0', '-0', '1', '1.0', '1.', '.1', '1e0', '1E0', '1e+0', '1e-0', 'INF', '-INF', '+INF', 'NaN', '-NaN', 'inf', 'nan', 'Inf', 'INFINITY', '1e', 'e1', '1e1.0', '.', '.e1', '-.', '1.0E39', '-1.0E39', '3.4028235E38',
              '3.4028236E38', '3.4028234663852886E38', '3.402823466385289E38', '3.4028235677973366E38', '3.4028235677973367E38', '3.5E38', '1E-45', '1.4E-45', '7.0E-46', '7.1E-46', '1E-46', '1.1e-46', '1E-50', '-1E-50', '1.17549435E-38',
              '1.17549421E-38', '16777216', '16777217', '16777218', '16777219', '1.0000001', '1.00000001', '1.00000006', '1.00000012', '0.1', '0.10000000149011612', '0.100000001', '1E400', '-1E400', '1E-400', '0e0', '0E400',
              '1d0', '1f', '0x1p3', '1,5', '+1', '+.5', '5e05', '5E-05', '1e 5', ''],
    'double': ['0', '-0', '1', '1.0', '1.', '.1', '1e0', 'INF', '-INF', '+INF', 'NaN', 'inf', '1e', '.', '1.7976931348623157E308', '1.7976931348623158E308', '1.7976931348623159E308', '1.8E308', '1E309', '-1E309', '2.2250738585072014E-308',
               '2.2250738585072011E-308', '4.9E-324', '2.4E-324', '2.5E-324', '1E-325', '1E-400', '9007199254740992', '9007199254740993', '9007199254740994', '0.1', '0.1000000000000000055511151231257827', '0.10000000000000001',
               '0.1000000000000000125', '1.0000000000000002', '1.00000000000000011', '1.0000000000000001', '1E400', '0E400', '+1', '1e+5', '1E05', '1d0', ''],
    'hexBinary': ['', '0', '00', '0F', '0f', '0fB7', 'ABCDEF', 'abcdef', 'aBcDeF', 'G0', '0G', '0 0', '00 ', ' 00', '0x00', 'FFF', 'FFFF', '0123456789abcdefABCDEF', '\u00e9\u00e9', '00\n', '+1'],
    'base64Binary': ['', 'AA==', 'AAA=', 'AAAA', 'A', 'AA', 'AAA', 'AAAAA', 'A===', 'AA=', 'AB==', 'AAB=', 'AQ==', 'Ag==', 'Aw==', 'AAE=', 'AAI=', 'A A = =', 'A A==', 'AA= =', 'AA ==', 'A  A==', 'AAAA AAAA', 'AAAAAA==', 'AAAA====',
                     '=', '==', '====', 'AA==AAAA', 'AAAA=', 'AAAA==', 'AA==AA==', '-A==', '_w==', '+/+/', 'A\u00e9==', 'QUJD', 'QUJDRA==', 'QUJDREU=', 'Q U J D', 'QUJD ', ' QUJD', 'QQ=Q', 'Zg==', 'Zm8=', 'Zm9v', 'Zm9vYg==', 'Zh==', 'Zm9=',
                     'AAAAAAA', 'AA=A', 'A=AA', 'AAA=AAAA', '0cy\u3042', 'QUJ\u0144', '\u0141\u0141=='],
    'duration': [],
    'anyURI': [],
    'date': ['2000-02-29', '1900-02-29', '2004-02-29', '2001-02-29', '0400-02-29', '2100-02-29', '2400-02-29', '1600-02-29', '0800-02-29', '1200-02-29', '2000-02-30', '1999-02-28', '1999-02-29',
             '2001-01-31', '2001-03-31', '2001-04-30', '2001-04-31', '2001-05-31', '2001-06-30', '2001-06-31', '2001-07-31', '2001-08-31', '2001-09-30', '2001-09-31', '2001-10-31', '2001-11-30', '2001-11-31',
             '2001-12-31', '2001-12-32', '2001-01-32', '2001-00-10', '2001-13-01', '2001-10-00', '2001-01-01Z', '2001-01-01+14:00', '2001-01-01-14:00', '2001-01-01+14:01', '2001-01-01+00:00', '2001-01-01-00:00',
             '2001-1-01', '01-01-01', '20010101', '2001-01-01T00:00:00', '10000-01-01', '010000-01-01', '0001-01-01', '9999-12-31', '-0001-01-01', '+2001-01-01', '2001-01-01 ', '2001-01-01z'],
    'dateTime': ['2000-02-29T12:00:00', '1900-02-29T12:00:00', '2004-02-29T00:00:00Z', '2001-02-29T12:00:00', '0400-02-29T23:59:59', '2100-02-29T12:00:00', '2400-02-29T12:00:00Z', '1600-02-29T12:00:00', '2000-02-30T12:00:00',
                 '2001-04-30T12:00:00', '2001-04-31T12:00:00', '2001-06-31T12:00:00', '2001-09-31T12:00:00', '2001-10-31T12:00:00', '2001-11-30T12:00:00', '2001-11-31T12:00:00', '2001-12-31T24:00:00', '2001-12-31T24:00:00Z',
                 '2001-12-31T24:00:00.000', '2001-12-31T24:00:01', '2001-12-31T24:01:00', '2001-12-31T24:00:00.1', '2001-12-31T25:00:00', '2001-12-31T23:60:00', '2001-12-31T23:59:60', '2001-12-31T23:59:59.999999',
                 '2002-01-01T00:00:00', '2002-01-01T00:00:00Z', '2001-12-31T23:00:00-01:00', '2002-01-01T01:00:00+01:00', '2001-12-31T10:00:00-14:00', '2002-01-01T14:00:00+14:00', '2002-01-01T00:00:00+14:01',
                 '2002-01-01T00:00:00+00:00', '2002-01-01T00:00:00-00:00', '2002-01-01T00:00:00.0', '2002-01-01T00:00:00.', '2002-01-01T0:00:00', '2002-01-01 00:00:00', '2002-01-01t00:00:00', '2002-01-01T00:00',
                 '2002-01-01', '0001-01-01T00:00:00', '9999-12-31T23:59:59', '10000-01-01T00:00:00', '2000-03-01T00:00:00+14:00', '2000-02-29T10:00:00Z', '2000-03-01T00:00:00-14:00', '1999-12-31T24:00:00', '2000-01-01T00:00:00'],
    'time': ['00:00:00', '24:00:00', '24:00:00Z', '24:00:00.0', '24:00:01', '24:01:00', '23:59:59', '23:59:60', '23:60:00', '25:00:00', '12:00:00.5', '12:00:00.50', '12:00:00.', '12:00:00Z', '12:00:00+14:00', '12:00:00-14:00',
             '12:00:00+14:01', '12:00:00+13:59', '12:00:00+00:00', '12:00:00-00:00', '13:00:00+01:00', '11:00:00-01:00', '1:00:00', '12:00', '12:00:0', '120000', '12:00:00z', 'T12:00:00'],
    'gYearMonth': ['2000-02', '2000-12', '2000-13', '2000-00', '2000-1', '2000-02Z', '2000-02+14:00', '2000-02-14:00', '2000-02+14:01', '0000-01', '10000-01', '010000-01', '-0001-12', '2000-02-01', '200-02', '2000-02+00:00'],
    'gYear': ['2000', '0001', '9999', '10000', '010000', '0000', '-0001', '200', '2000Z', '2000+14:00', '2000-14:00', '2000+14:01', '+2000', '2000-01', '2000+00:00', '2000-00:00', '02000'],
    'gMonthDay': ['--02-29', '--02-30', '--02-28', '--04-30', '--04-31', '--06-31', '--09-31', '--11-31', '--11-30', '--12-31', '--12-32', '--01-31', '--01-32', '--00-10', '--13-01', '--01-00', '--02-29Z', '--02-29+14:00',
                  '--02-29-14:00', '--2-29', '-02-29', '--0229', '--02-29+14:01', '--03-31', '--05-31', '--07-31', '--08-31', '--10-31', '--09-30', '--06-30'],
    'gDay': ['---01', '---31', '---32', '---00', '---1', '---01Z', '---01+14:00', '---01-14:00', '---15+14:01', '--01', '----01', '---30', '---29'],
    'gMonth': ['--01', '--12', '--13', '--00', '--1', '--01Z', '--01+14:00', '--01-14:00', '--01--', '--12--', '--01+14:01', '-01', '--001'],
}

# every character of the base64 alphabet in the position before the padding: of the final quantum "XY==" only Y in [AQgw]
# (four low bits zero), of "XYZ=" only Z with the two low bits zero are in the lexical space (E2-54: B04, B16)
_B64 = 'ABCDEFGHIJKLMNOPQRSTUVWXYZabcdefghijklmnopqrstuvwxyz0123456789+/'
CATALOGUE['base64Binary'] += ['A%s==' % c for c in _B64] + ['AA%s=' % c for c in _B64] + ['AAAAA%s==' % c for c in 'EIMUYcko048']


def literals_for(r, tname, n):
    """n (literal, source-tag) pairs for built-in type tname (values are RAW: white space processing still to apply)"""
    t = BUILTINS[tname]
    out = []
    cat = list(CATALOGUE.get(tname, []))
    prim = t.prim
    fam = tname if tname in INT_RANGES else None

    def one():
        if fam:
            return gen_integer_near(r, tname) if r.random() < 0.85 else gen_decimal(r)
        if tname == 'decimal':
            return gen_decimal(r)
        if tname in ('float', 'double'):
            return gen_float(r, tname[0])
        if tname in DT_RE:
            return gen_datetime(r, tname)
        if tname == 'duration':
            return gen_duration(r)
        if tname == 'hexBinary':
            return gen_hex(r)
        if tname == 'base64Binary':
            return gen_b64(r)
        if tname == 'boolean':
            return r.choice(CATALOGUE['boolean'])
        if tname == 'anyURI':
            return gen_anyuri(r)
        if tname == 'QName':
            return gen_name(r, 1)
        if tname in ('NCName', 'ID', 'IDREF', 'ENTITY'):
            return gen_name(r, 2 if r.random() < 0.2 else 0)
        if tname == 'Name':
            s = gen_name(r, 0)
            return s if r.random() < 0.7 else s + ':' + gen_name(r, 0)
        if tname == 'NMTOKEN':
            s = gen_name(r, 0)
            return s if r.random() < 0.5 else r.choice('0.-:') + s
        if tname in ('NMTOKENS', 'IDREFS', 'ENTITIES'):
            k = r.choice([0, 1, 1, 2, 3, 5])
            sep = r.choice([' ', ' ', '  ', '\t', '\n'])
            return sep.join(gen_name(r, 0) for _ in range(k))
        if tname == 'language':
            return gen_language(r)
        if tname in ('string', 'normalizedString', 'token'):
            return gen_string(r)
        return gen_string(r)

    for s in cat:
        out.append((s, 'cat'))
    while len(out) < n:
        s = one()
        k = r.random()
        if k < 0.25:
            s = mutate(r, s)
            out.append((s, 'mut'))
        elif k < 0.32 and t.ws() != 'preserve':
            s = r.choice([' ', '\t', '\n ', '  ']) + s + r.choice(['', ' ', '\r\n'])
            out.append((s, 'ws'))
        else:
            out.append((s, 'gen'))
    return out[:max(n, len(cat))]


# ---------------------------------------------------------------------------------------------------------------
#  derived types: facet sets with boundary values, lists, unions, chains
# ---------------------------------------------------------------------------------------------------------------
ATOMIC_BUILTINS = tuple(n for n, t in BUILTINS.items() if t.variety == 'atomic' and n != 'NOTATION')
ORDERED_BUILTINS = tuple(n for n in ATOMIC_BUILTINS if BUILTINS[n].prim in ORDERED_PRIMS)
LENGTH_BUILTINS = tuple(n for n in ATOMIC_BUILTINS if BUILTINS[n].prim in ('string', 'hexBinary', 'base64Binary', 'anyURI'))

PATTERNS = {
    'decimal': ['[0-9]+\\.[0-9]{2}', '-?[0-9]+', '[0-9]*\\.?[0-9]*', '[+\\-]?[1-9][0-9]*', '.*0', '1.*'],
    'float': ['[0-9]+\\.[0-9]+', '.*E.*', '[0-9.]+', 'INF|NaN', '-?[0-9]+(\\.[0-9]+)?'],
    'date': ['[0-9]{4}-.*', '.*Z', '[^Z]*', '.*-01.*', '[0-9:T\\-]+'],
    'duration': ['P[0-9]+Y', 'PT.*', '-?P[0-9YMD]+', 'P.*S'],
    'string': ['[a-z]+', 'a.*', '(ab|cd)+', '[a-zA-Z0-9]{2,4}', '.{3}', '[^a]*', 'a?b*c+'],
    'hexBinary': ['[0-9A-F]*', '(00)*', '.{4}'],
    'base64Binary': ['[A-Za-z0-9+/]*', '.*=', '[^ ]*'],
    'boolean': ['true|false', '[01]', '.{4}'],
    'list': ['[a-z ]+', '[0-9 ]+', '[^ ]+( [^ ]+)?', '.{0,5}', '.* .*'],
}


def pattern_pool(t):
    if t.variety != 'atomic':
        return PATTERNS['list']
    p = t.prim
    if p == 'double':
        p = 'float'
    if p in DT_RE:
        p = 'date'
    if p in ('anyURI', 'QName'):
        p = 'string'
    return PATTERNS.get(p, PATTERNS['string'])


def alt_forms(r, t, s, ev):
    """other literals of the same value (used for bounds / enumerations / equality axioms)"""
    prim = t.prim if t.variety == 'atomic' else None
    out = []
    if prim == 'decimal':
        isint = any(a.lexrule == 'integer' for a in t.chain())
        neg = s.startswith('-')
        body = s.lstrip('+-')
        out.append(('-' if neg else r.choice(['', '+'])) + '0' * r.randint(1, 3) + body)
        if not isint:
            if '.' in body:
                out.append(('-' if neg else '') + body + '0' * r.randint(1, 3))
            else:
                out.append(('-' if neg else '') + body + r.choice(['.', '.0', '.000']))
    elif prim in ('float', 'double'):
        if re.match(r'[+-]?[0-9]+\Z', s):
            out += [s + '.0', s + 'E0', s + '0e-1']
        elif re.match(r'[+-]?[0-9]+\.[0-9]+\Z', s):
            out += [s + '0', s + 'e0', s + 'E+00']
    elif prim == 'boolean':
        out += {'true': ['1'], '1': ['true'], 'false': ['0'], '0': ['false']}.get(s, [])
    elif prim == 'hexBinary':
        out += [s.lower(), s.upper()]
    elif prim == 'base64Binary':
        out += [' '.join(s.replace(' ', '')), s.replace(' ', '')]
    elif prim == 'dateTime':
        m = re.match(r'(.*T)([0-9]{2})(:[0-9]{2}:[0-9]{2})(\.[0-9]+)?(Z|[+-][0-9]{2}:[0-9]{2})?\Z', s)
        if m:
            d, hh, rest, fr, tz = m.groups()
            out.append(d + hh + rest + (fr + '0' if fr else '.0') + (tz or ''))
            if tz == 'Z':
                out.append(d + hh + rest + (fr or '') + '+00:00')
                h = int(hh)
                if 1 <= h <= 22:
                    out.append(d + '%02d' % (h + 1) + rest + (fr or '') + '+01:00')
                    out.append(d + '%02d' % (h - 1) + rest + (fr or '') + '-01:00')
    elif prim == 'time':
        m = re.match(r'([0-9]{2})(:[0-9]{2}:[0-9]{2})(\.[0-9]+)?(Z|[+-][0-9]{2}:[0-9]{2})?\Z', s)
        if m:
            hh, rest, fr, tz = m.groups()
            out.append(hh + rest + (fr + '0' if fr else '.000') + (tz or ''))
            if tz == 'Z':
                out.append(hh + rest + (fr or '') + '-00:00')
                h = int(hh)
                if 1 <= h <= 22:
                    out.append('%02d' % (h + 1) + rest + (fr or '') + '+01:00')
    elif prim in ('date', 'gYearMonth', 'gYear', 'gMonthDay', 'gDay', 'gMonth'):
        if s.endswith('Z'):
            out.append(s[:-1] + '+00:00')
            out.append(s[:-1] + '-00:00')
    elif prim == 'duration':
        v = parse_duration(s)
        if v is not None:
            mo, se = v
            if mo >= 0 and se >= 0:
                if se == 0 and mo:
                    out.append('P%dM' % mo)
                    out.append('P%dY%dM' % divmod(mo, 12))
                if mo == 0 and se == int(se):
                    out.append('PT%dS' % int(se))
                    out.append('P%dDT%dH%dM%dS' % (int(se) // 86400, int(se) % 86400 // 3600, int(se) % 3600 // 60, int(se) % 60))
                    out.append('PT%d.0S' % int(se))
    good = []
    for x in out:
        if x != s:
            vx = ev.evaluate(t, x)
            if vx.v == ACCEPT:
                good.append(x)
    return good


def neighbours(r, t, s):
    """literals of values just below / above the value of s (ordered atomic types)"""
    prim = t.prim
    out = []
    if prim == 'decimal':
        v = parse_decimal(s)
        if v is None:
            return out
        isint = any(a.lexrule == 'integer' for a in t.chain())
        i0, n0 = dec_digits(v)
        if isint:
            out += [str(int(v) - 1), str(int(v) + 1)]
        else:
            eps = Fraction(1, 10 ** (n0 + r.choice([0, 1, 3])))
            out += [canon_decimal(v - eps), canon_decimal(v + eps), canon_decimal(v - 1), canon_decimal(v + 1)]
    elif prim in ('float', 'double'):
        lx = None
        try:
            lx = parse_float_lex(s)
        except Skip:
            pass
        if isinstance(lx, tuple):
            v = -lx[1] if lx[2] else lx[1]
            for f in (Fraction(999, 1000), Fraction(1001, 1000), Fraction(1, 2), 2):
                w = v * f
                try:
                    out.append(('%.9E' if prim == 'float' else '%.17E') % float(w))
                except OverflowError:
                    pass
            out += ['0', '-1', '1', 'INF', '-INF']
    elif prim in ('dateTime', 'date', 'time', 'gYearMonth', 'gYear', 'gMonthDay', 'gDay', 'gMonth'):
        def bump(m):
            n = int(m.group(0))
            return '%0*d' % (len(m.group(0)), max(0, n + r.choice([-1, 1])))
        nums = list(re.finditer(r'[0-9]+', s.split('Z')[0]))
        for _ in range(3):
            if nums:
                m = r.choice(nums)
                out.append(s[:m.start()] + bump(m) + s[m.end():])
    elif prim == 'duration':
        out += ['P1D', 'PT1S', 'P1M', 'P1Y', 'P27D', 'P28D', 'P29D', 'P30D', 'P31D', 'P32D', 'P364D', 'P365D', 'P366D', 'P367D', 'PT0S', '-P1D', 'P59D', 'P62D', 'P2M']
        nums = list(re.finditer(r'[0-9]+', s))
        if nums:
            m = r.choice(nums)
            out.append(s[:m.start()] + str(int(m.group(0)) + 1) + s[m.end():])
    return out


def _has_enum(t):
    for a in t.chain():
        if any(fn == 'enumeration' for fn, _ in a.facets):
            return True
    if t.item is not None and _has_enum(t.item):
        return True
    return any(_has_enum(m) for m in t.members)


def gen_restriction(r, base, ev, name, pool):
    """one derivation step on base (Type).  pool = [(literal, verdict)] of normalised literals judged against base.
    Returns (Type, extra_literals) or None.  Only consistent facet sets are produced (the validity of the derivation
    itself is not what this generator is after)."""
    good = [s for s, v in pool if v.v == ACCEPT]
    if involves(base, ('float',)):
        # facet literals of types built on xs:float: only literals whose decimal value IS a binary32 value, so that the validity
        # of the derivation itself does not depend on the precision the implementation keeps (test literals are not restricted)
        def exact32(x):
            try:
                lx = parse_float_lex(x)
            except Skip:
                return False
            if not isinstance(lx, tuple):
                return True
            try:
                return round_binary(lx[1], FLT) == lx[1]
            except Exception:
                return False
        good = [x for x in good if all(exact32(tok) for tok in x.split(' '))]
    if involves(base, ('dateTime', 'time')):
        # facet literals: no hour 24 (the consistency of the derivation itself would hinge on KF-C09-05; test literals keep it)
        good = [x for x in good if not re.search(r'(T|^| )24:', x)]
    if not good:
        return None
    facets = []
    extra = []
    used = set()
    for a in base.chain():
        if a.builtin:
            break
        for fn, _ in a.facets:
            used.add(fn)
    variety = base.variety
    prim = base.prim if variety == 'atomic' else None
    kinds = []
    if variety == 'atomic' and prim in ORDERED_PRIMS:
        kinds += ['bounds', 'bounds', 'enumeration', 'pattern']
        if prim == 'decimal':
            kinds += ['digits', 'digits']
    elif variety == 'atomic' and prim in ('string', 'hexBinary', 'base64Binary', 'anyURI'):
        kinds += ['length', 'length', 'enumeration', 'pattern']
        if prim == 'string' and base.ws() != 'collapse' and not any(a.lexrule for a in base.chain()):
            kinds.append('whiteSpace')
    elif variety == 'atomic' and prim == 'boolean':
        kinds += ['pattern']                 # XSD 1.0: boolean has no enumeration facet
    elif variety == 'atomic' and prim == 'QName':
        kinds += ['pattern']                 # enumeration of QNames needs a namespace context: not reachable on route 1
    elif variety == 'atomic':
        kinds += ['enumeration', 'pattern']
    elif variety == 'list':
        kinds += ['length', 'length', 'enumeration', 'pattern']
    else:
        kinds += ['enumeration', 'pattern']
    r.shuffle(kinds)
    nk = r.choice([1, 1, 2, 2, 3])
    chosen = []
    for k in kinds:
        if k not in chosen:
            chosen.append(k)
        if len(chosen) >= nk:
            break
    for k in chosen:
        if k == 'bounds':
            a = r.choice(good)
            b = r.choice(good)
            va, vb = ev.evaluate(base, a), ev.evaluate(base, b)
            try:
                c = prim_cmp(prim, va.value, vb.value)
            except Skip:
                continue
            if c == 2 or (prim in ('float', 'double') and NAN in (va.value, vb.value)):
                continue
            if c > 0:
                a, b = b, a
            if c == 0:
                b = a          # equal values: one literal (two literals of one xs:float value may differ once kept as doubles)
            lo_kind = r.choice(['minInclusive', 'minExclusive', None])
            hi_kind = r.choice(['maxInclusive', 'maxExclusive', None])
            if c == 0 and (lo_kind == 'minExclusive' or hi_kind == 'maxExclusive'):
                lo_kind, hi_kind = 'minInclusive', 'maxInclusive'
            if lo_kind is None and hi_kind is None:
                hi_kind = 'maxInclusive'
            if used & {'minInclusive', 'minExclusive'}:
                lo_kind = None
            if used & {'maxInclusive', 'maxExclusive'}:
                hi_kind = None
            for kind, lit in ((lo_kind, a), (hi_kind, b)):
                if kind:
                    alts = alt_forms(r, base, lit, ev)
                    facets.append((kind, r.choice(alts) if alts and r.random() < 0.4 else lit))
                    extra += [lit] + alts + neighbours(r, base, lit)
        elif k == 'digits':
            if 'totalDigits' in used or 'fractionDigits' in used:
                continue
            isint = any(a.lexrule == 'integer' for a in base.chain())
            td = r.randint(1, 6)
            which = r.choice(['td', 'fd', 'both']) if not isint else 'td'
            fd = r.randint(0, td)
            if which in ('td', 'both'):
                facets.append(('totalDigits', str(td)))
            if which in ('fd', 'both'):
                facets.append(('fractionDigits', str(fd)))
            for _ in range(10):
                ni = r.randint(0, td + 1)
                nf = 0 if isint else r.randint(0, (fd if which != 'td' else td) + 2)
                ip = ''.join(r.choice('123456789') for _ in range(ni))
                fp = ''.join(r.choice('0123456789') for _ in range(nf))
                lit = r.choice(['', '-', '+']) + r.choice(['', '0', '00']) + (ip or ('0' if r.random() < 0.7 or not fp else '')) + (('.' + fp + r.choice(['', '0', '000'])) if (fp or (not isint and r.random() < 0.2)) else '')
                extra.append(lit)
            extra += ['0', '0.0' if not isint else '00', '9' * td, '9' * (td + 1), '1' + '0' * td, '1' + '0' * (td - 1)]
            if not isint:
                extra += ['0.' + '0' * (td - 1) + '1', '0.' + '0' * td + '1', '1.' + '0' * (td + 2), '0.' + '9' * td, '.' + '9' * (td + 1), '9' * td + '.0', '1' * td + '.1']
        elif k == 'length':
            if used & {'length', 'minLength', 'maxLength'}:
                continue
            a = r.choice(good)
            va = ev.evaluate(base, a)
            if variety == 'list':
                n = len(va.value)
            elif prim in ('hexBinary', 'base64Binary'):
                n = len(va.value)
            else:
                n = len(a)
            n = max(0, n + r.choice([0, 0, 0, -1, 1]))
            c = r.random()
            if c < 0.4:
                facets.append(('length', str(n)))
            elif c < 0.6:
                facets.append(('minLength', str(n)))
            elif c < 0.8:
                facets.append(('maxLength', str(n)))
            else:
                facets.append(('minLength', str(max(0, n - 1))))
                facets.append(('maxLength', str(n + r.choice([0, 1]))))
        elif k == 'enumeration':
            if involves(base, ('hexBinary', 'base64Binary')) and _has_enum(base):
                continue       # a second enumeration over binary values: validity of the derivation would hinge on KF-C09-10
            ne = r.choice([1, 2, 3, 4])
            for _ in range(ne):
                a = r.choice(good)
                alts = alt_forms(r, base, a, ev) if variety == 'atomic' else []
                facets.append(('enumeration', r.choice(alts) if alts and r.random() < 0.5 else a))
                extra += [a] + alts
                if variety == 'atomic':
                    extra += neighbours(r, base, a)[:2]
        elif k == 'pattern':
            for _ in range(r.choice([1, 1, 2])):
                facets.append(('pattern', r.choice(pattern_pool(base))))
        elif k == 'whiteSpace':
            cur = base.ws()
            facets.append(('whiteSpace', 'collapse' if cur == 'replace' else r.choice(['replace', 'collapse'])))
    if not facets:
        return None
    return Type(name, variety, base=base, facets=facets), extra


# ---------------------------------------------------------------------------------------------------------------
#  schema text for route 3
# ---------------------------------------------------------------------------------------------------------------
def xml_attr(s):
    out = []
    for c in s:
        if c == '&':
            out.append('&amp;')
        elif c == '<':
            out.append('&lt;')
        elif c == '>':
            out.append('&gt;')
        elif c == '"':
            out.append('&quot;')
        elif c in '\t\n\r':
            out.append('&#%d;' % ord(c))
        else:
            out.append(c)
    return ''.join(out)


def is_xml_text(s):
    for c in s:
        o = ord(c)
        if o < 0x20 and c not in '\t\n\r':
            return False
        if 0xD800 <= o <= 0xDFFF or o in (0xFFFE, 0xFFFF):
            return False
    return True


def type_ref(t):
    return 'xs:' + t.name if t.builtin else t.name


def schema_text(types, elem_types):
    """types: user Types in definition order; elem_types: Types that get a global element e_<name> and an attribute
    holder a_<name>"""
    L = ['<?xml version="1.0" encoding="UTF-8"?>', '<xs:schema xmlns:xs="http://www.w3.org/2001/XMLSchema" xmlns:p="urn:p" xmlns:q="urn:q">']
    for t in types:
        L.append('<xs:simpleType name="%s">' % t.name)
        if t.variety == 'list' and (t.base is None):
            L.append('<xs:list itemType="%s"/>' % type_ref(t.item))
        elif t.variety == 'union' and (t.base is None):
            L.append('<xs:union memberTypes="%s"/>' % ' '.join(type_ref(m) for m in t.members))
        else:
            L.append('<xs:restriction base="%s">' % type_ref(t.base))
            for fn, fv in t.facets:
                L.append('<xs:%s value="%s"/>' % (fn, xml_attr(fv)))
            L.append('</xs:restriction>')
        L.append('</xs:simpleType>')
    for t in elem_types:
        L.append('<xs:element name="e_%s" type="%s"/>' % (t.name, type_ref(t)))
        L.append('<xs:element name="a_%s"><xs:complexType><xs:attribute name="a" type="%s"/></xs:complexType></xs:element>' % (t.name, type_ref(t)))
    L.append('</xs:schema>')
    return '\n'.join(L).encode('utf-8')


def instance_doc(t, raw, as_attr):
    v = xml_attr(raw)
    ns = ' xmlns:p="urn:p" xmlns:q="urn:q"'
    if as_attr:
        return ('<a_%s%s a="%s"/>' % (t.name, ns, v)).encode('utf-8')
    return ('<e_%s%s>%s</e_%s>' % (t.name, ns, v, t.name)).encode('utf-8')


def involves(t, names, seen=None):
    """does the type (anywhere in its derivation / item / members) involve one of the named built-ins"""
    for a in t.chain():
        if a.name in names:
            return True
    if t.item is not None and involves(t.item, names):
        return True
    return any(involves(m, names) for m in t.members)


def involves_variety(t, variety):
    if t.variety == variety:
        return True
    if t.item is not None and involves_variety(t.item, variety):
        return True
    return any(involves_variety(m, variety) for m in t.members)
