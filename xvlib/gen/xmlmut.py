"""xmlmut: turn a well-formed generated document into one that violates exactly one named
well-formedness / namespace constraint.  Operators work on the rendered text using the construct spans
recorded by the renderer; each returns (new_text_or_bytes, detail) or None when not applicable."""

# operator -> needs ('any' | 'dtd' | 'nodtd' | 'ns' | 'utf8' | 'utf16' | 'xmldecl')


def _spans(g, kind):
    return [(s, e) for k, s, e in g['spans'] if k == kind]


def _pick(r, lst):
    return r.choice(lst) if lst else None


def _root_end(g):
    """offset just after the root element"""
    ends = [e for k, s, e in g['spans'] if k in ('endtag', 'emptytag')]
    return max(ends) if ends else None


def _ins(t, pos, s):
    return t[:pos] + s + t[pos:]


def _in_text_pos(g, r):
    """a position strictly inside character data of the document entity, not inside a reference"""
    t = g['text']
    sp = [(s, e) for s, e in _spans(g, 'text') if e - s >= 1]
    r.shuffle(sp)
    for s, e in sp:
        cand = [p for p in range(s, e + 1)]
        r.shuffle(cand)
        for p in cand:
            # not inside '&...;'
            a = t.rfind('&', s, p)
            if a != -1 and t.find(';', a, e) >= p:
                continue
            # do not split a CR LF pair
            return p
    return None


def _attr_value_pos(g, r):
    """position strictly inside an attribute value literal (after the opening quote), not inside a reference"""
    t = g['text']
    sp = _spans(g, 'attr')
    r.shuffle(sp)
    for s, e in sp:
        q = t[e - 1]
        if q not in '"\'':
            continue
        o = t.find(q, s, e - 1)
        if o == -1:
            continue
        cand = list(range(o + 1, e))
        r.shuffle(cand)
        for p in cand:
            a = t.rfind('&', o, p)
            if a != -1 and t.find(';', a, e) >= p:
                continue
            return p, q
    return None


OPS = {}


def op(name, needs='any', ns_only=False, expat=True):
    def deco(f):
        OPS[name] = dict(fn=f, needs=needs, ns_only=ns_only, expat=expat)
        return f
    return deco


# ---- tag structure ---------------------------------------------------------------------------------
@op('del-endtag')
def _(g, r):
    sp = _pick(r, _spans(g, 'endtag'))
    if not sp:
        return None
    t = g['text']
    return t[:sp[0]] + t[sp[1]:], ''


@op('endtag-name-mismatch')
def _(g, r):
    sp = _pick(r, _spans(g, 'endtag'))
    if not sp:
        return None
    t = g['text']
    return _ins(t, sp[0] + 2, 'q'), ''


@op('extra-endtag')
def _(g, r):
    p = _root_end(g)
    return _ins(g['text'], p, '</' + g['doc']['root']['qname'] + '>'), ''


@op('second-root')
def _(g, r):
    p = _root_end(g)
    return _ins(g['text'], p, '<zz/>'), ''


@op('text-after-root')
def _(g, r):
    p = _root_end(g)
    return _ins(g['text'], p, r.choice(['x', '&#65;', '&amp;', '<![CDATA[x]]>'])), ''


@op('text-before-root')
def _(g, r):
    sp = [s for k, s, e in g['spans'] if k in ('starttag', 'emptytag')]
    p = min(sp)
    return _ins(g['text'], p, r.choice(['x', '&#65;', '<![CDATA[x]]>'])), ''


@op('unclosed-starttag')
def _(g, r):
    t = g['text']
    # the tag must run into markup, not into character data that happens to contain a '>'
    sp = _pick(r, [x for x in _spans(g, 'starttag') if t[x[1]:x[1] + 1] == '<'])
    if not sp:
        return None
    return t[:sp[1] - 1] + t[sp[1]:], ''


@op('truncate')
def _(g, r):
    t = g['text']
    starts = [s for k, s, e in g['spans'] if k in ('starttag',)]
    if not starts:
        return None
    lo = min(starts) + 1
    hi = _root_end(g) - 1
    if hi <= lo:
        return None
    p = r.randint(lo, hi)
    return t[:p], 'at %d' % p


@op('empty-document')
def _(g, r):
    return r.choice(['', ' ', '\n', '<?xml version="1.0"?>', '<!-- c -->']), ''


@op('lt-in-text')
def _(g, r):
    p = _in_text_pos(g, r)
    if p is None:
        return None
    return _ins(g['text'], p, r.choice(['< ', '<=', '<1'])), ''


@op('bad-element-name')
def _(g, r):
    sp = _pick(r, _spans(g, 'emptytag') + _spans(g, 'starttag'))
    t = g['text']
    return _ins(t, sp[0] + 1, r.choice(['1', '-', '.', ' ', '&'])), ''


# ---- attributes ------------------------------------------------------------------------------------
@op('dup-attr')
def _(g, r):
    sp = _pick(r, _spans(g, 'attr'))
    if not sp:
        return None
    t = g['text']
    a = t[sp[0]:sp[1]]
    return _ins(t, sp[1], ' ' + a), ''


@op('dup-attr-many')
def _(g, r):
    # more than 100 attributes: reaches the hashed duplicate check
    sp = _pick(r, _spans(g, 'emptytag') + _spans(g, 'starttag'))
    t = g['text']
    nm = g['doc']['root']['qname']
    # insert right after the element name of the chosen tag
    j = sp[0] + 1
    while j < sp[1] and t[j] not in ' \t\r\n/>':
        j += 1
    n = r.randint(101, 140)
    # the registry is a growing hash set: aim at its growth points as well as at random positions
    k = r.choice([r.randint(0, n - 1), 27, 28, 29, 59, 60, 61, 123, 124, 125]) % n
    attrs = ''.join(' zq%d="%d"' % (i, i) for i in range(n)) + ' zq%d="dup"' % k
    return _ins(t, j, attrs), ''


@op('attr-unquoted')
def _(g, r):
    sp = _pick(r, _spans(g, 'attr'))
    if not sp:
        return None
    t = g['text']
    q = t[sp[1] - 1]
    o = t.find(q, sp[0], sp[1] - 1)
    if o == -1:
        return None
    return t[:o] + 'v' + t[sp[1]:], ''


@op('attr-missing-value')
def _(g, r):
    sp = _pick(r, _spans(g, 'attr'))
    if not sp:
        return None
    t = g['text']
    eq = t.find('=', sp[0], sp[1])
    return t[:eq] + t[sp[1]:], ''


@op('attr-no-space-between')
def _(g, r):
    sp = _pick(r, _spans(g, 'attr'))
    if not sp:
        return None
    t = g['text']
    return _ins(t, sp[1], 'zq="1"'), ''


@op('lt-in-attr')
def _(g, r):
    x = _attr_value_pos(g, r)
    if not x:
        return None
    return _ins(g['text'], x[0], '<'), ''


@op('amp-in-attr')
def _(g, r):
    x = _attr_value_pos(g, r)
    if not x:
        return None
    return _ins(g['text'], x[0], r.choice(['& ', '&;', '&1;'])), ''


@op('attr-unterminated')
def _(g, r):
    sp = _pick(r, _spans(g, 'attr'))
    if not sp:
        return None
    t = g['text']
    q = t[sp[1] - 1]
    rest = t[sp[1]:]
    if q in rest:
        # closing quote removed, but a later quote of the same kind would close it: make sure a '<' follows first
        if '<' not in rest[:rest.index(q)]:
            return None
    return t[:sp[1] - 1] + t[sp[1]:], ''


# ---- character data --------------------------------------------------------------------------------
@op('cdata-end-in-text')
def _(g, r):
    p = _in_text_pos(g, r)
    if p is None:
        return None
    return _ins(g['text'], p, ']]>'), ''


@op('amp-in-text')
def _(g, r):
    p = _in_text_pos(g, r)
    if p is None:
        return None
    return _ins(g['text'], p, r.choice(['& ', '&;', '&#;', '&<'])), ''


@op('illegal-char', expat=True)
def _(g, r):
    p = _in_text_pos(g, r)
    if p is None:
        return None
    cs = ['\x00', '\x01', '\x08', '\x0b', '\x0c', '\x1f', '￾', '￿']
    if g['cx'].version == '1.1':
        cs += ['\x7f', '\x80', '\x9f']      # restricted characters must be references in 1.1
    if g['cx'].latin1:
        cs = [c for c in cs if ord(c) < 256]
    c = r.choice(cs)
    return _ins(g['text'], p, c), 'U+%04X' % ord(c)


@op('illegal-char-in-attr')
def _(g, r):
    x = _attr_value_pos(g, r)
    if not x:
        return None
    c = r.choice(['\x01', '\x0b', '\x1f'] + ([] if g['cx'].latin1 else ['￾', '￿']))
    return _ins(g['text'], x[0], c), 'U+%04X' % ord(c)


@op('bad-charref')
def _(g, r):
    p = _in_text_pos(g, r)
    if p is None:
        return None
    refs = ['&#0;', '&#x0;', '&#xD800;', '&#xDFFF;', '&#x110000;', '&#xFFFE;', '&#xFFFF;', '&#x;', '&#;', '&#12', '&#xg;', '&#x1G;', '&# 65;', '&#X41;', '&#99999999999;']
    if g['cx'].version == '1.0':
        refs += ['&#1;', '&#x1f;', '&#11;']
    c = r.choice(refs)
    t = g['text']
    if c == '&#12':
        # an unterminated reference must not be completed by a following ';'
        c = '&#12 '
    return _ins(t, p, c), c


@op('bad-charref-in-attr')
def _(g, r):
    x = _attr_value_pos(g, r)
    if not x:
        return None
    c = r.choice(['&#0;', '&#xD800;', '&#x110000;', '&#xFFFF;', '&#x;'] + (['&#1;'] if g['cx'].version == '1.0' else []))
    return _ins(g['text'], x[0], c), c


@op('undeclared-entity')
def _(g, r):
    if 'pe-decl' in g['cx'].tags or g['cx'].external:
        return None          # with a PE reference or an external subset an undeclared entity is a validity matter only
    p = _in_text_pos(g, r)
    if p is None:
        return None
    return _ins(g['text'], p, '&nosuchent;'), ''


def _add_decls(g, decls):
    """add declarations to the internal subset, creating a DOCTYPE when there is none"""
    t = g['text']
    dsp = _spans(g, 'doctype')
    if dsp:
        s, e = dsp[0]
        seg = t[s:e]
        if '[' in seg:
            i = s + seg.index('[') + 1
            return _ins(t, i, decls), 0
        # <!DOCTYPE name ... >  -> add a subset before the closing '>'
        return t[:e - 1] + ' [' + decls + ']' + t[e - 1:], 0
    starts = [s for k, s, e in g['spans'] if k in ('starttag', 'emptytag')]
    p = min(starts)
    return _ins(t, p, '<!DOCTYPE ' + g['doc']['root']['qname'] + ' [' + decls + ']>'), 0


def _with_ref(g, r, decls, ref, in_attr=False):
    """insert ref at a text (or attribute) position and the declarations into the DTD"""
    if in_attr:
        x = _attr_value_pos(g, r)
        if not x:
            return None
        p = x[0]
    else:
        p = _in_text_pos(g, r)
        if p is None:
            return None
    t2 = _ins(g['text'], p, ref)
    g2 = dict(g)
    g2['text'] = t2
    # spans before p are unaffected; the doctype (if any) and the first start tag precede every text/attr position
    t3, _ = _add_decls(g2, decls)
    return t3


@op('recursive-entity', needs='dtdok')
def _(g, r):
    k = r.randint(1, 4)
    names = ['zr%d' % i for i in range(k)]
    decls = ''.join('<!ENTITY %s "a&%s;">' % (names[i], names[(i + 1) % k]) for i in range(k))
    t = _with_ref(g, r, decls, '&zr0;', in_attr=r.random() < 0.3)
    return (t, 'cycle %d' % k) if t else None


@op('entity-partial-markup', needs='dtdok')
def _(g, r):
    body = r.choice(['<zz>', '</zz>', '<zz', '<!--', '<![CDATA[', 'a<zz>b</zz', '&#60;zz>'])
    if body == '&#60;zz>':
        body = '&#60;zz>'    # char ref expands at declaration time: replacement text '<zz>'
    t = _with_ref(g, r, '<!ENTITY zm "%s">' % body, '&zm;')
    return (t, body) if t else None


@op('element-split-across-entities', needs='dtdok')
def _(g, r):
    # WFC: the replacement text of an entity must match 'content' — an element may not begin in one entity and end in another
    v = r.choice(['two-internal', 'start-in-entity', 'end-in-entity', 'nested', 'three'])
    if v == 'two-internal':
        decls, ref = '<!ENTITY zs1 "<zz>"><!ENTITY zs2 "</zz>">', '&zs1;x&zs2;'
    elif v == 'start-in-entity':
        decls, ref = '<!ENTITY zs1 "<zz>">', '&zs1;x</zz>'
    elif v == 'end-in-entity':
        decls, ref = '<!ENTITY zs2 "</zz>">', '<zz>x&zs2;'
    elif v == 'nested':
        decls, ref = '<!ENTITY zs1 "<zz>"><!ENTITY zs2 "</zz>"><!ENTITY zs3 "a&#38;zs1;b"><!ENTITY zs4 "c&#38;zs2;d">', '&zs3;x&zs4;'
    else:
        decls, ref = '<!ENTITY zs1 "<zz><yy>"><!ENTITY zs2 "</yy>"><!ENTITY zs5 "</zz>">', '&zs1;x&zs2;&zs5;'
    t = _with_ref(g, r, decls, ref)
    return (t, v) if t else None


@op('unparsed-entity-ref', needs='dtdok')
def _(g, r):
    t = _with_ref(g, r, '<!NOTATION zn SYSTEM "n"><!ENTITY zu SYSTEM "u.bin" NDATA zn>', '&zu;')
    return (t, '') if t else None


@op('external-entity-in-attr', needs='dtdok')
def _(g, r):
    t = _with_ref(g, r, '<!ENTITY zx SYSTEM "zx.ent">', '&zx;', in_attr=True)
    return (t, '') if t else None


@op('lt-in-entity-used-in-attr', needs='dtdok')
def _(g, r):
    t = _with_ref(g, r, '<!ENTITY zl "a&#60;b">', '&zl;', in_attr=True)
    return (t, '') if t else None


# ---- comments / PIs / CDATA ------------------------------------------------------------------------
@op('double-hyphen-in-comment')
def _(g, r):
    sp = _pick(r, _spans(g, 'comment'))
    if not sp:
        return None
    t = g['text']
    cand = [p for p in range(sp[0] + 4, sp[1] - 2) if t[p] != '>']     # '-->' would simply end the comment early
    if not cand:
        return None
    return _ins(t, r.choice(cand), '--'), ''


@op('comment-unterminated')
def _(g, r):
    sp = _pick(r, _spans(g, 'comment'))
    if not sp:
        return None
    t = g['text']
    if '-->' in t[sp[1]:]:
        return None
    return t[:sp[1] - 3] + t[sp[1]:], ''


@op('pi-target-xml')
def _(g, r):
    p = _in_text_pos(g, r)
    if p is None:
        return None
    return _ins(g['text'], p, r.choice(['<?xml x?>', '<?XML x?>', '<?xMl?>', '<?xml version="1.0"?>'])), ''


@op('pi-unterminated')
def _(g, r):
    sp = _pick(r, _spans(g, 'pi'))
    if not sp:
        return None
    t = g['text']
    if '?>' in t[sp[1]:]:
        return None
    return t[:sp[1] - 2] + t[sp[1]:], ''


@op('pi-no-target')
def _(g, r):
    p = _in_text_pos(g, r)
    if p is None:
        return None
    return _ins(g['text'], p, r.choice(['<? x?>', '<??>', '<?1a ?>'])), ''


@op('cdata-unterminated')
def _(g, r):
    p = _in_text_pos(g, r)
    if p is None:
        return None
    t = g['text']
    if ']]>' in t[p:]:
        return None
    return _ins(t, p, '<![CDATA[x'), ''


@op('cdata-outside-root')
def _(g, r):
    p = _root_end(g)
    return _ins(g['text'], p, '<![CDATA[]]>'), ''


@op('bad-markup-decl-in-content')
def _(g, r):
    p = _in_text_pos(g, r)
    if p is None:
        return None
    return _ins(g['text'], p, r.choice(['<!ELEMENT a ANY>', '<!x>', '<![INCLUDE[', '<!-x-->', '<!DOCTYPE a>'])), ''


# ---- XML declaration -------------------------------------------------------------------------------
def _xmldecl(g):
    sp = _spans(g, 'xmldecl')
    return sp[0] if sp else None


@op('xmldecl-not-first', needs='xmldecl')
def _(g, r):
    return r.choice([' ', '\n', '<!--c-->', '<?p?>']) + g['text'], ''


@op('xmldecl-in-content', needs='any')
def _(g, r):
    p = _root_end(g)
    return _ins(g['text'], p, '<?xml version="1.0"?>'), ''


@op('xmldecl-bad-version', needs='xmldecl')
def _(g, r):
    s, e = _xmldecl(g)
    t = g['text']
    seg = t[s:e]
    v = g['doc']['version']
    new = r.choice(['2.0', 'abc', '', '1', '1.', '10', ' 1.0', '1.0 '])
    for q in '"\'':
        k = 'version=' + q + v + q
        if k in seg:
            return t[:s] + seg.replace(k, 'version=' + q + new + q, 1) + t[e:], new
    return None


@op('xmldecl-version-1x-garbage', needs='xmldecl')
def _(g, r):
    s, e = _xmldecl(g)
    t = g['text']
    seg = t[s:e]
    v = g['doc']['version']
    new = r.choice(['1.a', '1.0a', '1.&', '1.-', '1.0.0', '1. 0'])
    for q in '"\'':
        k = 'version=' + q + v + q
        if k in seg:
            return t[:s] + seg.replace(k, 'version=' + q + new + q, 1) + t[e:], new
    return None


@op('xmldecl-no-version', needs='xmldecl')
def _(g, r):
    s, e = _xmldecl(g)
    t = g['text']
    seg = t[s:e]
    v = g['doc']['version']
    for q in '"\'':
        k = ' version=' + q + v + q
        if k in seg:
            rest = seg.replace(k, '', 1)
            if 'encoding' not in rest:
                rest = rest.replace('<?xml', '<?xml encoding="UTF-8"', 1) if g['encoding'].startswith('UTF-8') else None
                if rest is None:
                    return None
            return t[:s] + rest + t[e:], ''
    return None


@op('xmldecl-bad-standalone', needs='xmldecl')
def _(g, r):
    s, e = _xmldecl(g)
    t = g['text']
    return t[:e - 2] + ' standalone="%s"' % r.choice(['maybe', 'YES', 'true', '']) + t[e - 2:], ''


@op('xmldecl-wrong-order', needs='xmldecl')
def _(g, r):
    s, e = _xmldecl(g)
    t = g['text']
    return t[:s + 5] + ' standalone="yes"' + t[s + 5:], ''


@op('xmldecl-uppercase', needs='xmldecl')
def _(g, r):
    s, e = _xmldecl(g)
    t = g['text']
    return t[:s] + '<?XML' + t[s + 5:], ''


@op('xmldecl-unterminated', needs='xmldecl')
def _(g, r):
    s, e = _xmldecl(g)
    t = g['text']
    return t[:e - 2] + r.choice(['>', ' ', '?']) + t[e:], ''


@op('xmldecl-bad-encoding-name', needs='xmldecl')
def _(g, r):
    s, e = _xmldecl(g)
    t = g['text']
    seg = t[s:e]
    if 'encoding=' not in seg:
        return None
    i = seg.index('encoding=') + 9
    q = seg[i]
    j = seg.index(q, i + 1)
    return t[:s] + seg[:i + 1] + r.choice(['-UTF8', '8bit', 'UTF 8', '']) + seg[j:] + t[e:], ''


# ---- DOCTYPE / DTD ---------------------------------------------------------------------------------
@op('duplicate-doctype', needs='dtd')
def _(g, r):
    s, e = _spans(g, 'doctype')[0]
    t = g['text']
    return _ins(t, e, '<!DOCTYPE ' + g['doc']['root']['qname'] + '>'), ''


@op('doctype-after-root')
def _(g, r):
    p = _root_end(g)
    return _ins(g['text'], p, '<!DOCTYPE ' + g['doc']['root']['qname'] + '>'), ''


@op('doctype-unterminated', needs='dtd')
def _(g, r):
    s, e = _spans(g, 'doctype')[0]
    t = g['text']
    return t[:e - 1] + t[e:], ''


@op('dtd-garbage-decl', needs='dtdok')
def _(g, r):
    d = r.choice(['<!FOO a>', '<!ELEMENT>', '<!ELEMENT a>', '<!ELEMENT a (b,c|d)>', '<!ELEMENT a (#PCDATA|b)>', '<!ATTLIST a b>', '<!ATTLIST a b CDATA>',
                  '<!ATTLIST a b FOO #IMPLIED>', '<!ENTITY a>', '<!ENTITY a SYSTEM>', '<!ENTITY a "x" NDATA n>', '<!ENTITY % p SYSTEM "p" NDATA n>',
                  '<!NOTATION n>', '<!ELEMENT a (b)**>', '<!ATTLIST a b (x|) #IMPLIED>', 'x', '<a/>', ']', '<!ENTITY a "&#0;">', '<!ENTITY a "x&">',
                  '<!ENTITY a "%zz;">', '<!ATTLIST a b CDATA "<">', '<!ENTITY a PUBLIC "{" "s">', '<!ELEMENT a EMPTY ANY>'])
    t, _ = _add_decls(g, d)
    return t, d


@op('pe-ref-in-decl-internal', needs='dtdok')
def _(g, r):
    t, _ = _add_decls(g, '<!ENTITY % zp "CDATA"><!ATTLIST zz zb %zp; #IMPLIED>')
    return t, ''


@op('conditional-section-internal', needs='dtdok')
def _(g, r):
    t, _ = _add_decls(g, r.choice(['<![INCLUDE[<!ELEMENT zz ANY>]]>', '<![IGNORE[ x ]]>']))
    return t, ''


# ---- namespaces (only meaningful with namespace processing on) --------------------------------------
def _tag_name_end(t, sp):
    j = sp[0] + 1
    while j < sp[1] and t[j] not in ' \t\r\n/>':
        j += 1
    return j


@op('ns-unbound-element-prefix', ns_only=True)
def _(g, r):
    sp = _pick(r, _spans(g, 'emptytag'))
    if not sp:
        return None
    t = g['text']
    j = _tag_name_end(t, sp)
    nm = t[sp[0] + 1:j]
    if ':' in nm:
        nm = nm.split(':')[1]
    return t[:sp[0] + 1] + 'zzunb:' + nm + t[j:], ''


@op('ns-unbound-attr-prefix', ns_only=True)
def _(g, r):
    sp = _pick(r, _spans(g, 'emptytag') + _spans(g, 'starttag'))
    t = g['text']
    j = _tag_name_end(t, sp)
    return _ins(t, j, ' zzunb:a="1"'), ''


@op('ns-xml-prefix-wrong-uri', ns_only=True)
def _(g, r):
    sp = _pick(r, _spans(g, 'emptytag') + _spans(g, 'starttag'))
    t = g['text']
    j = _tag_name_end(t, sp)
    return _ins(t, j, ' xmlns:xml="urn:wrong"'), ''


@op('ns-xmlns-prefix-declared', ns_only=True)
def _(g, r):
    sp = _pick(r, _spans(g, 'emptytag') + _spans(g, 'starttag'))
    t = g['text']
    j = _tag_name_end(t, sp)
    return _ins(t, j, r.choice([' xmlns:xmlns="urn:x"', ' xmlns:xmlns="http://www.w3.org/2000/xmlns/"'])), ''


@op('ns-reserved-uri-bound', ns_only=True)
def _(g, r):
    sp = _pick(r, _spans(g, 'emptytag') + _spans(g, 'starttag'))
    t = g['text']
    j = _tag_name_end(t, sp)
    return _ins(t, j, r.choice([' xmlns:zq="http://www.w3.org/XML/1998/namespace"', ' xmlns:zq="http://www.w3.org/2000/xmlns/"',
                                ' xmlns="http://www.w3.org/XML/1998/namespace"', ' xmlns="http://www.w3.org/2000/xmlns/"'])), ''


@op('ns-empty-prefix-binding-1.0', ns_only=True, needs='v1.0')
def _(g, r):
    sp = _pick(r, _spans(g, 'emptytag') + _spans(g, 'starttag'))
    t = g['text']
    j = _tag_name_end(t, sp)
    return _ins(t, j, ' xmlns:zq=""'), ''


@op('ns-two-colons', ns_only=True)
def _(g, r):
    sp = _pick(r, _spans(g, 'emptytag'))
    if not sp:
        return None
    t = g['text']
    j = _tag_name_end(t, sp)
    return t[:sp[0] + 1] + r.choice(['xml:a:b', ':a', 'xml:', 'xml::a']) + t[j:], ''


@op('ns-attr-colon-misuse', ns_only=True)
def _(g, r):
    sp = _pick(r, _spans(g, 'emptytag') + _spans(g, 'starttag'))
    t = g['text']
    j = _tag_name_end(t, sp)
    return _ins(t, j, r.choice([' xml:a:b="1"', ' :a="1"', ' xml:="1"'])), ''


@op('ns-duplicate-expanded-attr', ns_only=True)
def _(g, r):
    sp = _pick(r, _spans(g, 'emptytag') + _spans(g, 'starttag'))
    t = g['text']
    j = _tag_name_end(t, sp)
    return _ins(t, j, ' xmlns:zq1="urn:dup" xmlns:zq2="urn:dup" zq1:a="1" zq2:a="2"'), ''


@op('ns-xmlns-element-prefix', ns_only=True)
def _(g, r):
    sp = _pick(r, _spans(g, 'emptytag'))
    if not sp:
        return None
    t = g['text']
    j = _tag_name_end(t, sp)
    return t[:sp[0] + 1] + 'xmlns:a' + t[j:], ''


# ---- byte-level (encoding) operators: return bytes ---------------------------------------------------
BYTE_OPS = {}


def bop(name, needs):
    def deco(f):
        BYTE_OPS[name] = dict(fn=f, needs=needs)
        return f
    return deco


def _byte_text_pos(g, r):
    p = _in_text_pos(g, r)
    if p is None:
        return None
    return len(g['bom']) + len(g['text'][:p].encode(g['codec'], 'surrogatepass'))


@bop('utf8-illegal-sequence', 'utf8')
def _(g, r):
    p = _byte_text_pos(g, r)
    if p is None:
        return None
    seq = r.choice([b'\xc0\x80', b'\xc1\xbf', b'\xff', b'\xfe', b'\x80', b'\xbf', b'\xe0\x80\x80', b'\xe0\x9f\xbf', b'\xed\xa0\x80', b'\xed\xbf\xbf',
                    b'\xf0\x80\x80\x80', b'\xf0\x8f\xbf\xbf', b'\xf4\x90\x80\x80', b'\xf5\x80\x80\x80', b'\xf8\x88\x80\x80\x80', b'\xc2', b'\xe2\x82', b'\xf0\x9f\x98',
                    b'\xc2\x41', b'\xe2\x82\x41', b'\xef\xbf\xbe', b'\xef\xbf\xbf'])
    d = g['bytes']
    if seq in (b'\xc2', b'\xe2\x82', b'\xf0\x9f\x98'):
        # truncated sequence followed by an ASCII character (not at end of input)
        return d[:p] + seq + b'x' + d[p:], seq.hex()
    return d[:p] + seq + d[p:], seq.hex()


@bop('utf8-truncated-at-eof', 'utf8')
def _(g, r):
    seq = r.choice([b'\xc2', b'\xe2\x82', b'\xe2', b'\xf0\x9f', b'\xf0\x9f\x98', b'\xf0'])
    return g['bytes'] + seq, seq.hex()


@bop('utf16-lone-surrogate', 'utf16')
def _(g, r):
    p = _byte_text_pos(g, r)
    if p is None:
        return None
    le = g['codec'].endswith('le')
    u = r.choice([0xD800, 0xDBFF, 0xDC00, 0xDFFF])
    b = u.to_bytes(2, 'little' if le else 'big')
    x = (0x41).to_bytes(2, 'little' if le else 'big')
    d = g['bytes']
    return d[:p] + b + x + d[p:], '%04X' % u


@bop('utf16-odd-length', 'utf16')
def _(g, r):
    return g['bytes'] + b'\x41', ''


@bop('utf16-illegal-char', 'utf16')
def _(g, r):
    p = _byte_text_pos(g, r)
    if p is None:
        return None
    le = g['codec'].endswith('le')
    u = r.choice([0xFFFE, 0xFFFF, 0x0001, 0x0000])
    b = u.to_bytes(2, 'little' if le else 'big')
    d = g['bytes']
    return d[:p] + b + d[p:], '%04X' % u


def applicable(name, g):
    o = OPS.get(name) or BYTE_OPS.get(name)
    need = o['needs']
    cx = g['cx']
    if need == 'dtd':
        return bool(g['doc']['doctype'])
    if need == 'xmldecl':
        return any(k == 'xmldecl' for k, s, e in g['spans'])
    if need == 'utf8':
        return g['encoding'] == 'UTF-8'
    if need == 'utf16':
        return g['encoding'].startswith('UTF-16')
    if need == 'v1.0':
        return cx.version == '1.0'
    return True


def mutate(g, r, name):
    """returns dict(bytes, op, detail) or None"""
    if not applicable(name, g):
        return None
    if name in BYTE_OPS:
        res = BYTE_OPS[name]['fn'](g, r)
        if not res:
            return None
        return {'bytes': res[0], 'op': name, 'detail': res[1], 'text': None}
    res = OPS[name]['fn'](g, r)
    if not res:
        return None
    text = res[0]
    try:
        data = g['bom'] + text.encode(g['codec'], 'surrogatepass')
    except UnicodeEncodeError:
        return None
    return {'bytes': data, 'op': name, 'detail': res[1], 'text': text}


ALL_OPS = list(OPS) + list(BYTE_OPS)
