"""reref: regular-expression ASTs (XML-Schema dialect and XPath-flavoured dialect), pattern text rendering,
two backtracking-free reference matchers (Brzozowski derivatives with a memoised DFA; position-set NFA
simulation that also understands anchors / search semantics), string workloads and malformed-expression mutants.

Nothing here is shared with the engine under test: membership is decided on the AST, never on pattern text.

AST (python tuples)
  ('lit', cp)                       one character
  ('dot',)
  ('esc', c)                        c in s S i I c C d D w W
  ('cat', name, neg)                \\p{name} / \\P{name}     general category (L, Lu, ...)
  ('blk', name, neg)                \\p{IsName} / \\P{IsName} block of the fixed XSD 1.0 list
  ('cls', neg, items, sub)          [ ^? items (-[sub])? ]   items: ('lit',cp) | ('rng',lo,hi) | esc | cat | blk
  ('seq', [n...])  ('alt', [n...])  ('grp', n)  ('eps',)
  ('rep', n, min, max|None, form, lazy)   form in * + ? {n} {n,} {n,m}
  ('bol',) ('eol',)                 ^ and $ (XPath dialect only; in the schema dialect they are literals)
"""
import unicodedata
from .. import core

# ---------------------------------------------------------------------------------------------------
#  The pool: the only code points that ever occur in test strings and as literals of judged expressions.
#  For each: general category (stable since Unicode 3.1), XML 1.0 NameStart (Letter|_|:), NameChar.
#  Categories are cross-checked against python's unicodedata at import; a code point that disagrees is dropped.
# ---------------------------------------------------------------------------------------------------
def _ascii_table():
    t = {0x09: 'Cc', 0x0A: 'Cc', 0x0D: 'Cc', 0x20: 'Zs'}
    po = '!"#%&\'*,./:;?@\\'
    for ch in po: t[ord(ch)] = 'Po'
    for ch in '+<=>|~': t[ord(ch)] = 'Sm'
    for ch in '([{': t[ord(ch)] = 'Ps'
    for ch in ')]}': t[ord(ch)] = 'Pe'
    t[ord('$')] = 'Sc'; t[ord('-')] = 'Pd'; t[ord('_')] = 'Pc'; t[ord('^')] = 'Sk'; t[ord('`')] = 'Sk'
    for c in range(0x30, 0x3A): t[c] = 'Nd'
    for c in range(0x41, 0x5B): t[c] = 'Lu'
    for c in range(0x61, 0x7B): t[c] = 'Ll'
    return t

# cp: (category, nameStart, nameChar)
_NONASCII = {
    0x00A0: ('Zs', 0, 0), 0x00A1: ('Po', 0, 0), 0x00A3: ('Sc', 0, 0), 0x00A9: ('So', 0, 0), 0x00AB: ('Pi', 0, 0),
    0x00B2: ('No', 0, 0), 0x00B7: ('Po', 0, 1), 0x00BB: ('Pf', 0, 0), 0x00BD: ('No', 0, 0),
    0x00C0: ('Lu', 1, 1), 0x00D6: ('Lu', 1, 1), 0x00D7: ('Sm', 0, 0), 0x00D8: ('Lu', 1, 1),
    0x00E0: ('Ll', 1, 1), 0x00F6: ('Ll', 1, 1), 0x00F7: ('Sm', 0, 0), 0x00F8: ('Ll', 1, 1), 0x00FF: ('Ll', 1, 1),
    0x01C5: ('Lt', 0, 0), 0x02B0: ('Lm', 0, 0),
    0x0300: ('Mn', 0, 1), 0x0903: ('Mc', 0, 1), 0x20DD: ('Me', 0, 0),
    0x0391: ('Lu', 1, 1), 0x0392: ('Lu', 1, 1), 0x03A9: ('Lu', 1, 1), 0x03B1: ('Ll', 1, 1), 0x03B2: ('Ll', 1, 1), 0x03C9: ('Ll', 1, 1),
    0x0410: ('Lu', 1, 1), 0x042F: ('Lu', 1, 1), 0x0430: ('Ll', 1, 1), 0x044F: ('Ll', 1, 1),
    0x05D0: ('Lo', 1, 1), 0x0660: ('Nd', 0, 1),
    0x2013: ('Pd', 0, 0), 0x2018: ('Pi', 0, 0), 0x2019: ('Pf', 0, 0), 0x203F: ('Pc', 0, 0),
    0x2028: ('Zl', 0, 0), 0x2029: ('Zp', 0, 0), 0x200D: ('Cf', 0, 0), 0x20AC: ('Sc', 0, 0),
    0x2160: ('Nl', 0, 0), 0x2211: ('Sm', 0, 0), 0x2602: ('So', 0, 0),
    0x3000: ('Zs', 0, 0), 0x3001: ('Po', 0, 0), 0x3007: ('Nl', 1, 1), 0x3042: ('Lo', 1, 1),
    0x4E00: ('Lo', 1, 1), 0x9FA5: ('Lo', 1, 1), 0xAC00: ('Lo', 1, 1), 0xE000: ('Co', 0, 0),
    0x10400: ('Lu', 0, 0), 0x10428: ('Ll', 0, 0), 0x1D7CE: ('Nd', 0, 0), 0x20000: ('Lo', 0, 0), 0xF0000: ('Co', 0, 0),
}

POOL = {}
POOL_DROPPED = []


def _build_pool():
    a = _ascii_table()
    for cp, cat in a.items():
        ch = chr(cp)
        ns = ch.isalpha() or ch in '_:'
        nc = ns or ch.isdigit() or ch in '.-'
        POOL[cp] = (cat, 1 if ns else 0, 1 if nc else 0)
    for cp, v in _NONASCII.items():
        POOL[cp] = v
    for cp in list(POOL):
        if unicodedata.category(chr(cp)) != POOL[cp][0]:
            POOL_DROPPED.append(cp)
            del POOL[cp]


_build_pool()
POOL_LIST = sorted(POOL)
SUPP = [cp for cp in POOL_LIST if cp >= 0x10000]

CATEGORIES = ['L', 'Lu', 'Ll', 'Lt', 'Lm', 'Lo', 'M', 'Mn', 'Mc', 'Me', 'N', 'Nd', 'Nl', 'No', 'P', 'Pc', 'Pd', 'Ps', 'Pe',
              'Pi', 'Pf', 'Po', 'Z', 'Zs', 'Zl', 'Zp', 'S', 'Sm', 'Sc', 'Sk', 'So', 'C', 'Cc', 'Cf', 'Co', 'Cn']

# XSD 1.0 (Part 2, F.1.1) block escapes: the subset written down here from the Recommendation's table.
BLOCKS = {
    'BasicLatin': [(0x0000, 0x007F)], 'Latin-1Supplement': [(0x0080, 0x00FF)], 'LatinExtended-A': [(0x0100, 0x017F)],
    'LatinExtended-B': [(0x0180, 0x024F)], 'IPAExtensions': [(0x0250, 0x02AF)], 'SpacingModifierLetters': [(0x02B0, 0x02FF)],
    'CombiningDiacriticalMarks': [(0x0300, 0x036F)], 'Greek': [(0x0370, 0x03FF)], 'Cyrillic': [(0x0400, 0x04FF)],
    'Armenian': [(0x0530, 0x058F)], 'Hebrew': [(0x0590, 0x05FF)], 'Arabic': [(0x0600, 0x06FF)], 'Devanagari': [(0x0900, 0x097F)],
    'Thai': [(0x0E00, 0x0E7F)], 'GeneralPunctuation': [(0x2000, 0x206F)], 'SuperscriptsandSubscripts': [(0x2070, 0x209F)],
    'CurrencySymbols': [(0x20A0, 0x20CF)], 'CombiningMarksforSymbols': [(0x20D0, 0x20FF)], 'LetterlikeSymbols': [(0x2100, 0x214F)],
    'NumberForms': [(0x2150, 0x218F)], 'Arrows': [(0x2190, 0x21FF)], 'MathematicalOperators': [(0x2200, 0x22FF)],
    'MiscellaneousSymbols': [(0x2600, 0x26FF)], 'CJKSymbolsandPunctuation': [(0x3000, 0x303F)], 'Hiragana': [(0x3040, 0x309F)],
    'Katakana': [(0x30A0, 0x30FF)], 'CJKUnifiedIdeographs': [(0x4E00, 0x9FFF)], 'HangulSyllables': [(0xAC00, 0xD7A3)],
    'PrivateUse': [(0xE000, 0xF8FF), (0xF0000, 0xFFFFD), (0x100000, 0x10FFFD)],
    'Deseret': [(0x10400, 0x1044F)], 'MathematicalAlphanumericSymbols': [(0x1D400, 0x1D7FF)],
    'CJKUnifiedIdeographsExtensionB': [(0x20000, 0x2A6D6)],
}
BLOCK_NAMES = sorted(BLOCKS)

# simple case pairs inside the pool (the only case relation that can matter for pool strings)
_CASE = {}
for _u in range(0x41, 0x5B): _CASE[_u] = _u + 32; _CASE[_u + 32] = _u
for _u, _l in ((0xC0, 0xE0), (0xD6, 0xF6), (0xD8, 0xF8), (0x391, 0x3B1), (0x392, 0x3B2), (0x3A9, 0x3C9), (0x410, 0x430), (0x42F, 0x44F), (0x10400, 0x10428)):
    _CASE[_u] = _l; _CASE[_l] = _u


def case_variants(cp):
    o = _CASE.get(cp)
    return (cp,) if o is None else (cp, o)


# ---------------------------------------------------------------------------------------------------
#  Leaf semantics.  env: dict(icase, dotall, xsd, quirks=frozenset)
#  quirks (never used for a verdict; only to attribute an observed deviation to a named class):
#    'supp-cn'   every supplementary code point has category Cn (and therefore \w holds, \d fails)
#    'dot-lsps'  '.' also excludes U+2028 and U+2029
#    'dot-cr'    (XPath dialect) '.' excludes U+000D as well
# ---------------------------------------------------------------------------------------------------
class Env:
    __slots__ = ('icase', 'dotall', 'multiline', 'xsd', 'quirks')

    def __init__(self, xsd=True, icase=False, dotall=False, multiline=False, quirks=frozenset()):
        self.xsd, self.icase, self.dotall, self.multiline, self.quirks = xsd, icase, dotall, multiline, frozenset(quirks)

    def key(self):
        return (self.xsd, self.icase, self.dotall, self.multiline, self.quirks)


def _cat(cp, env):
    if cp >= 0x10000 and 'supp-cn' in env.quirks:
        return 'Cn'
    return POOL[cp][0]


def _plain_has(leaf, cp, env):
    """membership without case folding"""
    k = leaf[0]
    if k == 'lit':
        return cp == leaf[1]
    if k == 'rng':
        return leaf[1] <= cp <= leaf[2]
    if k == 'dot':
        if env.dotall:
            return True
        if cp == 0x0A:
            return False
        if cp == 0x0D:
            return not (env.xsd or 'dot-cr' in env.quirks)
        if cp in (0x2028, 0x2029) and 'dot-lsps' in env.quirks:
            return False
        return True
    if k == 'esc':
        c = leaf[1]
        lc = c.lower()
        if lc == 's':
            r = cp in (0x20, 0x09, 0x0A, 0x0D)
        elif lc == 'd':
            r = _cat(cp, env) == 'Nd'
        elif lc == 'w':
            r = _cat(cp, env)[0] not in 'PZC'
            if cp >= 0x10000 and 'supp-cn' in env.quirks:
                r = True      # the engine's \w table excludes only BMP code points
        elif lc == 'i':
            r = bool(POOL[cp][1])
        elif lc == 'c':
            r = bool(POOL[cp][2])
        else:
            raise ValueError(leaf)
        return r != c.isupper()
    if k == 'cat':
        g = _cat(cp, env)
        r = (g == leaf[1]) if len(leaf[1]) == 2 else (g[0] == leaf[1])
        return r != leaf[2]
    if k == 'blk':
        r = any(lo <= cp <= hi for lo, hi in BLOCKS[leaf[1]])
        return r != leaf[2]
    if k == 'cls':
        r = any(_plain_has(it, cp, env) for it in leaf[2])
        if leaf[1]:
            r = not r
        if r and leaf[3] is not None and _plain_has(leaf[3], cp, env):
            r = False
        return r
    raise ValueError(leaf)


def _icase_has(leaf, cp, env):
    """XPath 'i' flag: literals and ranges (also inside negated groups and subtractions) are expanded by
    their case variants; generators never combine 'i' with category / multi-character escapes."""
    k = leaf[0]
    if k in ('lit', 'rng'):
        return any(_plain_has(leaf, v, env) for v in case_variants(cp))
    if k == 'cls':
        r = any(_icase_has(it, cp, env) for it in leaf[2])
        if leaf[1]:
            r = not r
        if r and leaf[3] is not None and _icase_has(leaf[3], cp, env):
            r = False
        return r
    return _plain_has(leaf, cp, env)


def leaf_has(leaf, cp, env):
    return _icase_has(leaf, cp, env) if env.icase else _plain_has(leaf, cp, env)


LEAF_KINDS = ('lit', 'dot', 'esc', 'cat', 'blk', 'cls')


def is_leaf(n):
    return n[0] in LEAF_KINDS


# ---------------------------------------------------------------------------------------------------
#  Rendering an AST as pattern text
# ---------------------------------------------------------------------------------------------------
_META_XSD = set('.\\?*+{}()|[]')
_META_XP = _META_XSD | set('^$')


def _lit_out(cp, xsd, rnd=None, xmode=False):
    ch = chr(cp)
    if cp == 0x0A: return '\\n' if (xmode or rnd is None or rnd.random() < 0.7) else ch
    if cp == 0x0D: return '\\r' if (xmode or rnd is None or rnd.random() < 0.7) else ch
    if cp == 0x09: return '\\t' if (xmode or rnd is None or rnd.random() < 0.7) else ch
    if ch in (_META_XSD if xsd else _META_XP):
        return '\\' + ch
    if ch == '-' and rnd is not None and rnd.random() < 0.3:
        return '\\-'
    if ch == '^' and xsd and rnd is not None and rnd.random() < 0.3:
        return '\\^'
    return ch


def _lit_in_class(cp):
    ch = chr(cp)
    if cp == 0x0A: return '\\n'
    if cp == 0x0D: return '\\r'
    if cp == 0x09: return '\\t'
    if ch in '\\[]-^':
        return '\\' + ch
    return ch


def _esc_out(n):
    k = n[0]
    if k == 'esc':
        return '\\' + n[1]
    if k == 'cat':
        return ('\\P{' if n[2] else '\\p{') + n[1] + '}'
    if k == 'blk':
        return ('\\P{Is' if n[2] else '\\p{Is') + n[1] + '}'
    raise ValueError(n)


def _cls_out(n):
    o = ['[']
    if n[1]:
        o.append('^')
    for it in n[2]:
        if it[0] == 'lit':
            o.append(_lit_in_class(it[1]))
        elif it[0] == 'rng':
            o.append(_lit_in_class(it[1]) + '-' + _lit_in_class(it[2]))
        else:
            o.append(_esc_out(it))
    if n[3] is not None:
        o.append('-' + _cls_out(n[3]))
    o.append(']')
    return ''.join(o)


def quant_text(mn, mx, form):
    if form in ('*', '+', '?'):
        return form
    if form == '{n}':
        return '{%d}' % mn
    if form == '{n,}':
        return '{%d,}' % mn
    return '{%d,%d}' % (mn, mx)


def render(n, xsd=True, rnd=None, xmode=False):
    """pattern text of an AST.  rnd: optional Random for free lexical choices; xmode: insert ignorable white space"""
    out = []

    def sp():
        if xmode and rnd is not None and rnd.random() < 0.35:
            out.append(rnd.choice([' ', '\t', '\n', '  ']))

    def go(n, ctx):
        k = n[0]
        sp()
        if k == 'lit':
            out.append(_lit_out(n[1], xsd, rnd, xmode))
        elif k == 'dot':
            out.append('.')
        elif k in ('esc', 'cat', 'blk'):
            out.append(_esc_out(n))
        elif k == 'cls':
            out.append(_cls_out(n))
        elif k == 'eps':
            pass
        elif k == 'bol':
            out.append('^')
        elif k == 'eol':
            out.append('$')
        elif k == 'grp':
            out.append('(')
            go(n[1], 'top')
            sp()
            out.append(')')
        elif k == 'seq':
            for c in n[1]:
                if c[0] == 'alt':
                    raise ValueError('alt directly inside seq')
                go(c, 'seq')
        elif k == 'alt':
            if ctx != 'top':
                raise ValueError('alt needs a group')
            for i, c in enumerate(n[1]):
                if i:
                    sp()
                    out.append('|')
                go(c, 'alt')
        elif k == 'rep':
            a = n[1]
            if a[0] in ('seq', 'alt', 'rep', 'eps', 'bol', 'eol'):
                raise ValueError('quantified non-atom')
            go(a, 'rep')
            sp()
            out.append(quant_text(n[2], n[3], n[4]))
            if n[5]:
                out.append('?')
        else:
            raise ValueError(n)
    go(n, 'top')
    sp()
    return ''.join(out)


def walk(n):
    yield n
    k = n[0]
    if k in ('seq', 'alt'):
        for c in n[1]:
            yield from walk(c)
    elif k in ('grp', 'rep'):
        yield from walk(n[1])


def leaves(n):
    return [x for x in walk(n) if is_leaf(x)]


def features(n):
    """feature tags of an expression (coverage counters / finding classes)"""
    f = set()
    for x in walk(n):
        k = x[0]
        if k == 'rep':
            f.add('q' + x[4] + ('?' if x[5] else ''))
            if x[1][0] == 'grp':
                f.add('q-on-group')
        elif k == 'cls':
            f.add('cls')
            if x[1]: f.add('cls-neg')
            if x[3] is not None: f.add('cls-sub')
            for it in x[2]:
                f.add('cls-' + it[0])
        elif k == 'esc':
            f.add('\\' + x[1])
        elif k == 'cat':
            f.add('\\P' if x[2] else '\\p')
        elif k == 'blk':
            f.add('\\PIs' if x[2] else '\\pIs')
        elif k == 'lit':
            f.add('lit-supp' if x[1] >= 0x10000 else 'lit')
        else:
            f.add(k)
    return f
