"""reref: regular-expression ASTs (XML-Schema dialect and XPath-flavoured dialect), pattern text rendering,
two backtracking-free reference matchers (Brzozowski derivatives with a memoised DFA; position-set NFA
simulation that also understands anchors / search semantics), string workloads and malformed-expression mutants.

Nothing here is shared with the engine under test: membership is decided on the AST, never on pattern text.

AST (python tuples)
  ('lit', cp)                       one character
  ('dot',)
  ('esc', c)                        c in s S i I c C d D w W
  ('cat', name, neg)                \\p{name} / \\P{name}     general category (L, Lu, ...)
  ('blk', name, neg)                \\p{IsName} / \\P{IsName} block of the fixed XSD 1.0 list
  ('cls', neg, items, sub)          [ ^? items (-[sub])? ]   items: ('lit',cp) | ('rng',lo,hi) | esc | cat | blk
  ('seq', [n...])  ('alt', [n...])  ('grp', n)  ('eps',)
  ('rep', n, min, max|None, form, lazy)   form in * + ? {n} {n,} {n,m}
  ('bol',) ('eol',)                 ^ and $ (XPath dialect only; in the schema dialect they are literals)
"""
import unicodedata
from .. import core

# ---------------------------------------------------------------------------------------------------
#  The pool: the only code points that ever occur in test strings and as literals of judged expressions.
#  For each: general category (stable since Unicode 3.1), XML 1.0 NameStart (Letter|_|:), NameChar.
#  Categories are cross-checked against python's unicodedata at import; a code point that disagrees is dropped.
# ---------------------------------------------------------------------------------------------------
def _ascii_table():
    t = {0x09: 'Cc', 0x0A: 'Cc', 0x0D: 'Cc', 0x20: 'Zs'}
    po = '!"#%&\'*,./:;?@\\'
    for ch in po: t[ord(ch)] = 'Po'
    for ch in '+<=>|~': t[ord(ch)] = 'Sm'
    for ch in '([{': t[ord(ch)] = 'Ps'
    for ch in ')]}': t[ord(ch)] = 'Pe'
    t[ord('$')] = 'Sc'; t[ord('-')] = 'Pd'; t[ord('_')] = 'Pc'; t[ord('^')] = 'Sk'; t[ord('`')] = 'Sk'
    for c in range(0x30, 0x3A): t[c] = 'Nd'
    for c in range(0x41, 0x5B): t[c] = 'Lu'
    for c in range(0x61, 0x7B): t[c] = 'Ll'
    return t

# cp: (category, nameStart, nameChar)
_NONASCII = {
    0x00A0: ('Zs', 0, 0), 0x00A1: ('Po', 0, 0), 0x00A3: ('Sc', 0, 0), 0x00A9: ('So', 0, 0), 0x00AB: ('Pi', 0, 0),
    0x00B2: ('No', 0, 0), 0x00B7: ('Po', 0, 1), 0x00BB: ('Pf', 0, 0), 0x00BD: ('No', 0, 0),
    0x00C0: ('Lu', 1, 1), 0x00D6: ('Lu', 1, 1), 0x00D7: ('Sm', 0, 0), 0x00D8: ('Lu', 1, 1),
    0x00E0: ('Ll', 1, 1), 0x00F6: ('Ll', 1, 1), 0x00F7: ('Sm', 0, 0), 0x00F8: ('Ll', 1, 1), 0x00FF: ('Ll', 1, 1),
    0x01C5: ('Lt', 0, 0), 0x02B0: ('Lm', 0, 0),
    0x0300: ('Mn', 0, 1), 0x0903: ('Mc', 0, 1), 0x20DD: ('Me', 0, 0),
    0x0391: ('Lu', 1, 1), 0x0392: ('Lu', 1, 1), 0x03A9: ('Lu', 1, 1), 0x03B1: ('Ll', 1, 1), 0x03B2: ('Ll', 1, 1), 0x03C9: ('Ll', 1, 1),
    0x0410: ('Lu', 1, 1), 0x042F: ('Lu', 1, 1), 0x0430: ('Ll', 1, 1), 0x044F: ('Ll', 1, 1),
    0x05D0: ('Lo', 1, 1), 0x0660: ('Nd', 0, 1),
    0x2013: ('Pd', 0, 0), 0x2018: ('Pi', 0, 0), 0x2019: ('Pf', 0, 0), 0x203F: ('Pc', 0, 0),
    0x2028: ('Zl', 0, 0), 0x2029: ('Zp', 0, 0), 0x200D: ('Cf', 0, 0), 0x20AC: ('Sc', 0, 0),
    0x2160: ('Nl', 0, 0), 0x2211: ('Sm', 0, 0), 0x2602: ('So', 0, 0),
    0x3000: ('Zs', 0, 0), 0x3001: ('Po', 0, 0), 0x3007: ('Nl', 1, 1), 0x3042: ('Lo', 1, 1),
    0x4E00: ('Lo', 1, 1), 0x9FA5: ('Lo', 1, 1), 0xAC00: ('Lo', 1, 1), 0xE000: ('Co', 0, 0),
    0x10400: ('Lu', 0, 0), 0x10428: ('Ll', 0, 0), 0x1D7CE: ('Nd', 0, 0), 0x20000: ('Lo', 0, 0), 0xF0000: ('Co', 0, 0),
}

POOL = {}
POOL_DROPPED = []


def _build_pool():
    a = _ascii_table()
    for cp, cat in a.items():
        ch = chr(cp)
        ns = ch.isalpha() or ch in '_:'
        nc = ns or ch.isdigit() or ch in '.-'
        POOL[cp] = (cat, 1 if ns else 0, 1 if nc else 0)
    for cp, v in _NONASCII.items():
        POOL[cp] = v
    for cp in list(POOL):
        if unicodedata.category(chr(cp)) != POOL[cp][0]:
            POOL_DROPPED.append(cp)
            del POOL[cp]


_build_pool()
POOL_LIST = sorted(POOL)
SUPP = [cp for cp in POOL_LIST if cp >= 0x10000]

CATEGORIES = ['L', 'Lu', 'Ll', 'Lt', 'Lm', 'Lo', 'M', 'Mn', 'Mc', 'Me', 'N', 'Nd', 'Nl', 'No', 'P', 'Pc', 'Pd', 'Ps', 'Pe',
              'Pi', 'Pf', 'Po', 'Z', 'Zs', 'Zl', 'Zp', 'S', 'Sm', 'Sc', 'Sk', 'So', 'C', 'Cc', 'Cf', 'Co', 'Cn']

# XSD 1.0 (Part 2, F.1.1) block escapes: the subset written down here from the Recommendation's table.
BLOCKS = {
    'BasicLatin': [(0x0000, 0x007F)], 'Latin-1Supplement': [(0x0080, 0x00FF)], 'LatinExtended-A': [(0x0100, 0x017F)],
    'LatinExtended-B': [(0x0180, 0x024F)], 'IPAExtensions': [(0x0250, 0x02AF)], 'SpacingModifierLetters': [(0x02B0, 0x02FF)],
    'CombiningDiacriticalMarks': [(0x0300, 0x036F)], 'Greek': [(0x0370, 0x03FF)], 'Cyrillic': [(0x0400, 0x04FF)],
    'Armenian': [(0x0530, 0x058F)], 'Hebrew': [(0x0590, 0x05FF)], 'Arabic': [(0x0600, 0x06FF)], 'Devanagari': [(0x0900, 0x097F)],
    'Thai': [(0x0E00, 0x0E7F)], 'GeneralPunctuation': [(0x2000, 0x206F)], 'SuperscriptsandSubscripts': [(0x2070, 0x209F)],
    'CurrencySymbols': [(0x20A0, 0x20CF)], 'CombiningMarksforSymbols': [(0x20D0, 0x20FF)], 'LetterlikeSymbols': [(0x2100, 0x214F)],
    'NumberForms': [(0x2150, 0x218F)], 'Arrows': [(0x2190, 0x21FF)], 'MathematicalOperators': [(0x2200, 0x22FF)],
    'MiscellaneousSymbols': [(0x2600, 0x26FF)], 'CJKSymbolsandPunctuation': [(0x3000, 0x303F)], 'Hiragana': [(0x3040, 0x309F)],
    'Katakana': [(0x30A0, 0x30FF)], 'CJKUnifiedIdeographs': [(0x4E00, 0x9FFF)], 'HangulSyllables': [(0xAC00, 0xD7A3)],
    'PrivateUse': [(0xE000, 0xF8FF), (0xF0000, 0xFFFFD), (0x100000, 0x10FFFD)],
    'Deseret': [(0x10400, 0x1044F)], 'MathematicalAlphanumericSymbols': [(0x1D400, 0x1D7FF)],
    'CJKUnifiedIdeographsExtensionB': [(0x20000, 0x2A6D6)],
}
BLOCK_NAMES = sorted(BLOCKS)

# simple case pairs inside the pool (the only case relation that can matter for pool strings)
_CASE = {}
for _u in range(0x41, 0x5B): _CASE[_u] = _u + 32; _CASE[_u + 32] = _u
for _u, _l in ((0xC0, 0xE0), (0xD6, 0xF6), (0xD8, 0xF8), (0x391, 0x3B1), (0x392, 0x3B2), (0x3A9, 0x3C9), (0x410, 0x430), (0x42F, 0x44F), (0x10400, 0x10428)):
    _CASE[_u] = _l; _CASE[_l] = _u


def case_variants(cp):
    o = _CASE.get(cp)
    return (cp,) if o is None else (cp, o)


# ---------------------------------------------------------------------------------------------------
#  Leaf semantics.  env: dict(icase, dotall, xsd, quirks=frozenset)
#  quirks (never used for a verdict; only to attribute an observed deviation to a named class):
#    'supp-cn'   every supplementary code point has category Cn (and therefore \w holds, \d fails)
#    'dot-lsps'  '.' also excludes U+2028 and U+2029
#    'dot-cr'    (XPath dialect) '.' excludes U+000D as well
# ---------------------------------------------------------------------------------------------------
class Env:
    __slots__ = ('icase', 'dotall', 'multiline', 'xsd', 'quirks')

    def __init__(self, xsd=True, icase=False, dotall=False, multiline=False, quirks=frozenset()):
        self.xsd, self.icase, self.dotall, self.multiline, self.quirks = xsd, icase, dotall, multiline, frozenset(quirks)

    def key(self):
        return (self.xsd, self.icase, self.dotall, self.multiline, self.quirks)


def _cat(cp, env):
    if cp >= 0x10000 and 'supp-cn' in env.quirks:
        return 'Cn'
    return POOL[cp][0]


def _plain_has(leaf, cp, env):
    """membership without case folding"""
    k = leaf[0]
    if k == 'lit':
        return cp == leaf[1]
    if k == 'rng':
        return leaf[1] <= cp <= leaf[2]
    if k == 'dot':
        if env.dotall:
            return True
        if cp == 0x0A:
            return False
        if cp == 0x0D:
            return not (env.xsd or 'dot-cr' in env.quirks)
        if cp in (0x2028, 0x2029) and 'dot-lsps' in env.quirks:
            return False
        return True
    if k == 'esc':
        c = leaf[1]
        lc = c.lower()
        if lc == 's':
            r = cp in (0x20, 0x09, 0x0A, 0x0D)
        elif lc == 'd':
            r = _cat(cp, env) == 'Nd'
        elif lc == 'w':
            r = _cat(cp, env)[0] not in 'PZC'
            if cp >= 0x10000 and 'supp-cn' in env.quirks:
                r = True      # the engine's \w table excludes only BMP code points
        elif lc == 'i':
            r = bool(POOL[cp][1])
        elif lc == 'c':
            r = bool(POOL[cp][2])
        else:
            raise ValueError(leaf)
        return r != c.isupper()
    if k == 'cat':
        g = _cat(cp, env)
        r = (g == leaf[1]) if len(leaf[1]) == 2 else (g[0] == leaf[1])
        return r != leaf[2]
    if k == 'blk':
        r = any(lo <= cp <= hi for lo, hi in BLOCKS[leaf[1]])
        return r != leaf[2]
    if k == 'cls':
        r = any(_plain_has(it, cp, env) for it in leaf[2])
        if leaf[1]:
            r = not r
        if r and leaf[3] is not None and _plain_has(leaf[3], cp, env):
            r = False
        return r
    raise ValueError(leaf)


def _icase_has(leaf, cp, env):
    """XPath 'i' flag: literals and ranges (also inside negated groups and subtractions) are expanded by
    their case variants; generators never combine 'i' with category / multi-character escapes."""
    k = leaf[0]
    if k in ('lit', 'rng'):
        return any(_plain_has(leaf, v, env) for v in case_variants(cp))
    if k == 'cls':
        r = any(_icase_has(it, cp, env) for it in leaf[2])
        if leaf[1]:
            r = not r
        if r and leaf[3] is not None and _icase_has(leaf[3], cp, env):
            r = False
        return r
    return _plain_has(leaf, cp, env)


def leaf_has(leaf, cp, env):
    return _icase_has(leaf, cp, env) if env.icase else _plain_has(leaf, cp, env)


LEAF_KINDS = ('lit', 'dot', 'esc', 'cat', 'blk', 'cls')


def is_leaf(n):
    return n[0] in LEAF_KINDS


# ---------------------------------------------------------------------------------------------------
#  Rendering an AST as pattern text
# ---------------------------------------------------------------------------------------------------
_META_XSD = set('.\\?*+{}()|[]')
_META_XP = _META_XSD | set('^$')


def _lit_out(cp, xsd, rnd=None, xmode=False):
    ch = chr(cp)
    if cp == 0x0A: return '\\n' if (xmode or rnd is None or rnd.random() < 0.7) else ch
    if cp == 0x0D: return '\\r' if (xmode or rnd is None or rnd.random() < 0.7) else ch
    if cp == 0x09: return '\\t' if (xmode or rnd is None or rnd.random() < 0.7) else ch
    if ch in (_META_XSD if xsd else _META_XP):
        return '\\' + ch
    if ch == '-' and rnd is not None and rnd.random() < 0.3:
        return '\\-'
    if ch == '^' and xsd and rnd is not None and rnd.random() < 0.3:
        return '\\^'
    return ch


def _lit_in_class(cp):
    ch = chr(cp)
    if cp == 0x0A: return '\\n'
    if cp == 0x0D: return '\\r'
    if cp == 0x09: return '\\t'
    if ch in '\\[]-^':
        return '\\' + ch
    return ch


def _esc_out(n):
    k = n[0]
    if k == 'esc':
        return '\\' + n[1]
    if k == 'cat':
        return ('\\P{' if n[2] else '\\p{') + n[1] + '}'
    if k == 'blk':
        return ('\\P{Is' if n[2] else '\\p{Is') + n[1] + '}'
    raise ValueError(n)


def _cls_out(n):
    o = ['[']
    if n[1]:
        o.append('^')
    for it in n[2]:
        if it[0] == 'lit':
            o.append(_lit_in_class(it[1]))
        elif it[0] == 'rng':
            o.append(_lit_in_class(it[1]) + '-' + _lit_in_class(it[2]))
        else:
            o.append(_esc_out(it))
    if n[3] is not None:
        o.append('-' + _cls_out(n[3]))
    o.append(']')
    return ''.join(o)


def quant_text(mn, mx, form):
    if form in ('*', '+', '?'):
        return form
    if form == '{n}':
        return '{%d}' % mn
    if form == '{n,}':
        return '{%d,}' % mn
    return '{%d,%d}' % (mn, mx)


def render(n, xsd=True, rnd=None, xmode=False):
    """pattern text of an AST.  rnd: optional Random for free lexical choices; xmode: insert ignorable white space"""
    out = []

    def sp():
        if xmode and rnd is not None and rnd.random() < 0.35:
            out.append(rnd.choice([' ', '\t', '\n', '  ']))

    def go(n, ctx):
        k = n[0]
        sp()
        if k == 'lit':
            out.append(_lit_out(n[1], xsd, rnd, xmode))
        elif k == 'dot':
            out.append('.')
        elif k in ('esc', 'cat', 'blk'):
            out.append(_esc_out(n))
        elif k == 'cls':
            out.append(_cls_out(n))
        elif k == 'eps':
            pass
        elif k == 'bol':
            out.append('^')
        elif k == 'eol':
            out.append('$')
        elif k == 'grp':
            out.append('(')
            go(n[1], 'top')
            sp()
            out.append(')')
        elif k == 'seq':
            for c in n[1]:
                if c[0] == 'alt':
                    raise ValueError('alt directly inside seq')
                go(c, 'seq')
        elif k == 'alt':
            if ctx != 'top':
                raise ValueError('alt needs a group')
            for i, c in enumerate(n[1]):
                if i:
                    sp()
                    out.append('|')
                go(c, 'alt')
        elif k == 'rep':
            a = n[1]
            if a[0] in ('seq', 'alt', 'rep', 'eps', 'bol', 'eol'):
                raise ValueError('quantified non-atom')
            go(a, 'rep')
            sp()
            out.append(quant_text(n[2], n[3], n[4]))
            if n[5]:
                out.append('?')
        else:
            raise ValueError(n)
    go(n, 'top')
    sp()
    return ''.join(out)


def walk(n):
    yield n
    k = n[0]
    if k in ('seq', 'alt'):
        for c in n[1]:
            yield from walk(c)
    elif k in ('grp', 'rep'):
        yield from walk(n[1])


def leaves(n):
    return [x for x in walk(n) if is_leaf(x)]


def features(n):
    """feature tags of an expression (coverage counters / finding classes)"""
    f = set()
    for x in walk(n):
        k = x[0]
        if k == 'rep':
            f.add('q' + x[4] + ('?' if x[5] else ''))
            if x[1][0] == 'grp':
                f.add('q-on-group')
        elif k == 'cls':
            f.add('cls')
            if x[1]: f.add('cls-neg')
            if x[3] is not None: f.add('cls-sub')
            for it in x[2]:
                f.add('cls-' + it[0])
        elif k == 'esc':
            f.add('\\' + x[1])
        elif k == 'cat':
            f.add('\\P' if x[2] else '\\p')
        elif k == 'blk':
            f.add('\\PIs' if x[2] else '\\pIs')
        elif k == 'lit':
            f.add('lit-supp' if x[1] >= 0x10000 else 'lit')
        else:
            f.add(k)
    return f


# ---------------------------------------------------------------------------------------------------
#  Reference matcher 1: Brzozowski derivatives over the AST, memoised into a DFA (anchor-free expressions)
# ---------------------------------------------------------------------------------------------------
class Deriv:
    """Terms are interned: 0 = empty set, 1 = epsilon, others via table.
    ('L', leafidx) ('S', a, b) ('A', (sorted ids)) ('R', a, mn, mx)"""

    def __init__(self, ast, env):
        self.env = env
        self.tab = [('0',), ('1',)]
        self.idx = {('0',): 0, ('1',): 1}
        self.leafs = []
        self.leafidx = {}
        self.nullm = {0: False, 1: True}
        self.dm = {}
        self.sig = {}
        self.sigid = {}
        self.start = self.conv(ast)

    # -- construction
    def mk(self, t):
        i = self.idx.get(t)
        if i is None:
            i = len(self.tab)
            self.tab.append(t)
            self.idx[t] = i
        return i

    def seq(self, a, b):
        if a == 0 or b == 0: return 0
        if a == 1: return b
        if b == 1: return a
        return self.mk(('S', a, b))

    def alt(self, xs):
        s = set()
        for x in xs:
            if x == 0:
                continue
            t = self.tab[x]
            if t[0] == 'A':
                s.update(t[1])
            else:
                s.add(x)
        if not s: return 0
        if len(s) == 1: return next(iter(s))
        return self.mk(('A', tuple(sorted(s))))

    def rep(self, a, mn, mx):
        if mx is not None and mx == 0: return 1
        if a == 0: return 1 if mn == 0 else 0
        if a == 1: return 1
        if mn == 1 and mx == 1: return a
        return self.mk(('R', a, mn, mx))

    def conv(self, n):
        k = n[0]
        if is_leaf(n):
            key = repr(n)
            i = self.leafidx.get(key)
            if i is None:
                i = len(self.leafs)
                self.leafs.append(n)
                self.leafidx[key] = i
            return self.mk(('L', i))
        if k == 'eps': return 1
        if k == 'grp': return self.conv(n[1])
        if k == 'seq':
            r = 1
            for c in reversed(n[1]):
                r = self.seq(self.conv(c), r)
            return r
        if k == 'alt':
            return self.alt([self.conv(c) for c in n[1]])
        if k == 'rep':
            return self.rep(self.conv(n[1]), n[2], n[3])
        raise ValueError('derivative matcher does not handle %r' % (n[0],))

    # -- semantics
    def nullable(self, x):
        r = self.nullm.get(x)
        if r is not None:
            return r
        t = self.tab[x]
        k = t[0]
        if k == 'L': r = False
        elif k == 'S': r = self.nullable(t[1]) and self.nullable(t[2])
        elif k == 'A': r = any(self.nullable(y) for y in t[1])
        else: r = t[2] == 0 or self.nullable(t[1])
        self.nullm[x] = r
        return r

    def signature(self, cp):
        s = self.sig.get(cp)
        if s is None:
            v = tuple(leaf_has(l, cp, self.env) for l in self.leafs)
            s = self.sigid.setdefault(v, (len(self.sigid), v))
            self.sig[cp] = s
        return s

    def d(self, x, s):
        """derivative of term x by a character with signature s=(id, bools)"""
        key = (x, s[0])
        r = self.dm.get(key)
        if r is not None:
            return r
        t = self.tab[x]
        k = t[0]
        if k in '01': r = 0
        elif k == 'L': r = 1 if s[1][t[1]] else 0
        elif k == 'S':
            r = self.seq(self.d(t[1], s), t[2])
            if self.nullable(t[1]):
                r = self.alt([r, self.d(t[2], s)])
        elif k == 'A':
            r = self.alt([self.d(y, s) for y in t[1]])
        else:
            a, mn, mx = t[1], t[2], t[3]
            r = self.seq(self.d(a, s), self.rep(a, max(mn - 1, 0), None if mx is None else mx - 1))
        self.dm[key] = r
        return r

    def run(self, cps, st=None):
        x = self.start if st is None else st
        for cp in cps:
            if x == 0:
                return 0
            x = self.d(x, self.signature(cp))
        return x

    def matches(self, cps):
        return self.nullable(self.run(cps))

    def all_upto(self, alphabet, maxlen):
        """verdicts for every string over `alphabet` (code points) up to maxlen: dict tuple(cps)->bool"""
        out = {}
        sigs = [(cp, self.signature(cp)) for cp in alphabet]

        def rec(prefix, x, depth):
            out[prefix] = self.nullable(x)
            if depth == maxlen:
                return
            for cp, s in sigs:
                rec(prefix + (cp,), self.d(x, s) if x else 0, depth + 1)
        rec((), self.start, 0)
        return out


# ---------------------------------------------------------------------------------------------------
#  Reference matcher 2: Thompson construction + position-set simulation (no backtracking).
#  Understands ^ and $ (with / without multi-line), anchored matching and leftmost search.
#  quirk 'dollar-final-eol': without 'm', $ also holds before a final newline (not used for verdicts).
# ---------------------------------------------------------------------------------------------------
class NFA:
    def __init__(self, ast, env, max_states=20000):
        self.env = env
        self.kind = []      # 'c' (leaf), 'e' (eps list), 'a' (assert bol/eol), 'acc'
        self.arg = []
        self.nxt = []
        self.max_states = max_states
        self.acc = self._new('acc', None, None)
        self.start = self._build(ast, self.acc)
        self._lm = {}

    def _new(self, kind, arg, nxt):
        if len(self.kind) >= self.max_states:
            raise OverflowError('reference NFA too large')
        self.kind.append(kind); self.arg.append(arg); self.nxt.append(nxt)
        return len(self.kind) - 1

    def _build(self, n, to):
        k = n[0]
        if is_leaf(n):
            return self._new('c', n, to)
        if k == 'eps':
            return to
        if k == 'grp':
            return self._build(n[1], to)
        if k in ('bol', 'eol'):
            return self._new('a', k, to)
        if k == 'seq':
            for c in reversed(n[1]):
                to = self._build(c, to)
            return to
        if k == 'alt':
            return self._new('e', None, [self._build(c, to) for c in n[1]])
        if k == 'rep':
            a, mn, mx = n[1], n[2], n[3]
            if mx is None:
                loop = self._new('e', None, None)
                body = self._build(a, loop)
                self.nxt[loop] = [body, to]
                cur = loop
            else:
                cur = to
                for _ in range(mx - mn):
                    body = self._build(a, cur)
                    cur = self._new('e', None, [body, to])
            for _ in range(mn):
                cur = self._build(a, cur)
            return cur
        raise ValueError(n)

    def _assert(self, kind, cps, pos, lo, hi):
        ml = self.env.multiline
        if kind == 'bol':
            return pos == lo or (ml and pos > lo and cps[pos - 1] == 0x0A)
        if pos == hi:
            return True
        if ml:
            return cps[pos] == 0x0A
        if 'dollar-final-eol' in self.env.quirks:
            return pos + 1 == hi and cps[pos] == 0x0A
        return False

    def _closure(self, seeds, cps, pos, lo, hi):
        """seeds: dict state -> smallest start position; returns the same for the eps/assert closure"""
        out = {}
        stack = list(seeds.items())
        while stack:
            s, st = stack.pop()
            o = out.get(s)
            if o is not None and o <= st:
                continue
            out[s] = st
            k = self.kind[s]
            if k == 'e':
                for t in self.nxt[s]:
                    stack.append((t, st))
            elif k == 'a':
                if self._assert(self.arg[s], cps, pos, lo, hi):
                    stack.append((self.nxt[s], st))
        return out

    def _has(self, s, cp):
        key = (s, cp)
        r = self._lm.get(key)
        if r is None:
            r = leaf_has(self.arg[s], cp, self.env)
            self._lm[key] = r
        return r

    def _step(self, cur, cp):
        nx = {}
        for s, st in cur.items():
            if self.kind[s] == 'c' and self._has(s, cp):
                t = self.nxt[s]
                o = nx.get(t)
                if o is None or st < o:
                    nx[t] = st
        return nx

    def full(self, cps, lo=0, hi=None):
        """anchored: cps[lo:hi] as a whole belongs to the language"""
        hi = len(cps) if hi is None else hi
        cur = self._closure({self.start: lo}, cps, lo, lo, hi)
        for pos in range(lo, hi):
            if not cur:
                return False
            cur = self._closure(self._step(cur, cps[pos]), cps, pos + 1, lo, hi)
        return self.acc in cur

    def search(self, cps, lo=0, hi=None):
        """leftmost start of a match of some substring of cps[lo:hi], or None"""
        hi = len(cps) if hi is None else hi
        best = None
        cur = {}
        for pos in range(lo, hi + 1):
            seeds = dict(cur)
            if best is None:
                seeds.setdefault(self.start, pos)
            cur = self._closure(seeds, cps, pos, lo, hi)
            if self.acc in cur:
                st = cur[self.acc]
                if best is None or st < best:
                    best = st
            if best is not None:
                # only threads that started at or before `best` can still improve the answer
                cur = {s: st for s, st in cur.items() if st < best}
                if not cur:
                    break
            if pos < hi:
                cur = self._step(cur, cps[pos])
        return best

    def ends_from(self, cps, p, lo=0, hi=None):
        """set of end positions e such that cps[p:e] matches when the match is attempted at p"""
        hi = len(cps) if hi is None else hi
        ends = set()
        cur = self._closure({self.start: p}, cps, p, lo, hi)
        pos = p
        while True:
            if self.acc in cur:
                ends.add(pos)
            if pos >= hi or not cur:
                break
            cur = self._closure(self._step(cur, cps[pos]), cps, pos + 1, lo, hi)
            pos += 1
        return ends


def has_anchor(ast):
    return any(x[0] in ('bol', 'eol') for x in walk(ast))


def nullable_ast(n):
    k = n[0]
    if is_leaf(n): return False
    if k in ('eps', 'bol', 'eol'): return True
    if k == 'grp': return nullable_ast(n[1])
    if k == 'seq': return all(nullable_ast(c) for c in n[1])
    if k == 'alt': return any(nullable_ast(c) for c in n[1])
    if k == 'rep': return n[2] == 0 or nullable_ast(n[1])
    raise ValueError(n)
