"""reref: regular-expression ASTs (XML-Schema dialect and XPath-flavoured dialect), pattern text rendering,
two backtracking-free reference matchers (Brzozowski derivatives with a memoised DFA; position-set NFA
simulation that also understands anchors / search semantics), string workloads and malformed-expression mutants.

Nothing here is shared with the engine under test: membership is decided on the AST, never on pattern text.

AST (python tuples)
  ('lit', cp)                       one character
  ('dot',)
  ('esc', c)                        c in s S i I c C d D w W
  ('cat', name, neg)                \\p{name} / \\P{name}     general category (L, Lu, ...)
  ('blk', name, neg)                \\p{IsName} / \\P{IsName} block of the fixed XSD 1.0 list
  ('cls', neg, items, sub)          [ ^? items (-[sub])? ]   items: ('lit',cp) | ('rng',lo,hi) | esc | cat | blk
  ('seq', [n...])  ('alt', [n...])  ('grp', n)  ('eps',)
  ('rep', n, min, max|None, form, lazy)   form in * + ? {n} {n,} {n,m}
  ('bol',) ('eol',)                 ^ and $ (XPath dialect only; in the schema dialect they are literals)
"""
import unicodedata
from .. import core

# ---------------------------------------------------------------------------------------------------
#  The pool: the only code points that ever occur in test strings and as literals of judged expressions.
#  For each: general category (stable since Unicode 3.1), XML 1.0 NameStart (Letter|_|:), NameChar.
#  Categories are cross-checked against python's unicodedata at import; a code point that disagrees is dropped.
# ---------------------------------------------------------------------------------------------------
def _ascii_table():
    t = {0x09: 'Cc', 0x0A: 'Cc', 0x0D: 'Cc', 0x20: 'Zs'}
    po = '!"#%&\'*,./:;?@\\'
    for ch in po: t[ord(ch)] = 'Po'
    for ch in '+<=>|~': t[ord(ch)] = 'Sm'
    for ch in '([{': t[ord(ch)] = 'Ps'
    for ch in ')]}': t[ord(ch)] = 'Pe'
    t[ord('$')] = 'Sc'; t[ord('-')] = 'Pd'; t[ord('_')] = 'Pc'; t[ord('^')] = 'Sk'; t[ord('`')] = 'Sk'
    for c in range(0x30, 0x3A): t[c] = 'Nd'
    for c in range(0x41, 0x5B): t[c] = 'Lu'
    for c in range(0x61, 0x7B): t[c] = 'Ll'
    return t

# cp: (category, nameStart, nameChar)
_NONASCII = {
    0x00A0: ('Zs', 0, 0), 0x00A1: ('Po', 0, 0), 0x00A3: ('Sc', 0, 0), 0x00A9: ('So', 0, 0), 0x00AB: ('Pi', 0, 0),
    0x00B2: ('No', 0, 0), 0x00B7: ('Po', 0, 1), 0x00BB: ('Pf', 0, 0), 0x00BD: ('No', 0, 0),
    0x00C0: ('Lu', 1, 1), 0x00D6: ('Lu', 1, 1), 0x00D7: ('Sm', 0, 0), 0x00D8: ('Lu', 1, 1),
    0x00E0: ('Ll', 1, 1), 0x00F6: ('Ll', 1, 1), 0x00F7: ('Sm', 0, 0), 0x00F8: ('Ll', 1, 1), 0x00FF: ('Ll', 1, 1),
    0x01C5: ('Lt', 0, 0), 0x02B0: ('Lm', 0, 0),
    0x0300: ('Mn', 0, 1), 0x0903: ('Mc', 0, 1), 0x20DD: ('Me', 0, 0),
    0x0391: ('Lu', 1, 1), 0x0392: ('Lu', 1, 1), 0x03A9: ('Lu', 1, 1), 0x03B1: ('Ll', 1, 1), 0x03B2: ('Ll', 1, 1), 0x03C9: ('Ll', 1, 1),
    0x0410: ('Lu', 1, 1), 0x042F: ('Lu', 1, 1), 0x0430: ('Ll', 1, 1), 0x044F: ('Ll', 1, 1),
    0x05D0: ('Lo', 1, 1), 0x0660: ('Nd', 0, 1),
    0x2013: ('Pd', 0, 0), 0x2018: ('Pi', 0, 0), 0x2019: ('Pf', 0, 0), 0x203F: ('Pc', 0, 0),
    0x2028: ('Zl', 0, 0), 0x2029: ('Zp', 0, 0), 0x200D: ('Cf', 0, 0), 0x20AC: ('Sc', 0, 0),
    0x2160: ('Nl', 0, 0), 0x2211: ('Sm', 0, 0), 0x2602: ('So', 0, 0),
    0x3000: ('Zs', 0, 0), 0x3001: ('Po', 0, 0), 0x3007: ('Nl', 1, 1), 0x3042: ('Lo', 1, 1),
    0x4E00: ('Lo', 1, 1), 0x9FA5: ('Lo', 1, 1), 0xAC00: ('Lo', 1, 1), 0xE000: ('Co', 0, 0),
    0x10400: ('Lu', 0, 0), 0x10428: ('Ll', 0, 0), 0x1D7CE: ('Nd', 0, 0), 0x20000: ('Lo', 0, 0), 0xF0000: ('Co', 0, 0),
}

POOL = {}
POOL_DROPPED = []


def _build_pool():
    a = _ascii_table()
    for cp, cat in a.items():
        ch = chr(cp)
        ns = ch.isalpha() or ch in '_:'
        nc = ns or ch.isdigit() or ch in '.-'
        POOL[cp] = (cat, 1 if ns else 0, 1 if nc else 0)
    for cp, v in _NONASCII.items():
        POOL[cp] = v
    for cp in list(POOL):
        if unicodedata.category(chr(cp)) != POOL[cp][0]:
            POOL_DROPPED.append(cp)
            del POOL[cp]


_build_pool()
POOL_LIST = sorted(POOL)
SUPP = [cp for cp in POOL_LIST if cp >= 0x10000]

CATEGORIES = ['L', 'Lu', 'Ll', 'Lt', 'Lm', 'Lo', 'M', 'Mn', 'Mc', 'Me', 'N', 'Nd', 'Nl', 'No', 'P', 'Pc', 'Pd', 'Ps', 'Pe',
              'Pi', 'Pf', 'Po', 'Z', 'Zs', 'Zl', 'Zp', 'S', 'Sm', 'Sc', 'Sk', 'So', 'C', 'Cc', 'Cf', 'Co', 'Cn']

# XSD 1.0 (Part 2, F.1.1) block escapes: the subset written down here from the Recommendation's table.
BLOCKS = {
    'BasicLatin': [(0x0000, 0x007F)], 'Latin-1Supplement': [(0x0080, 0x00FF)], 'LatinExtended-A': [(0x0100, 0x017F)],
    'LatinExtended-B': [(0x0180, 0x024F)], 'IPAExtensions': [(0x0250, 0x02AF)], 'SpacingModifierLetters': [(0x02B0, 0x02FF)],
    'CombiningDiacriticalMarks': [(0x0300, 0x036F)], 'Greek': [(0x0370, 0x03FF)], 'Cyrillic': [(0x0400, 0x04FF)],
    'Armenian': [(0x0530, 0x058F)], 'Hebrew': [(0x0590, 0x05FF)], 'Arabic': [(0x0600, 0x06FF)], 'Devanagari': [(0x0900, 0x097F)],
    'Thai': [(0x0E00, 0x0E7F)], 'GeneralPunctuation': [(0x2000, 0x206F)], 'SuperscriptsandSubscripts': [(0x2070, 0x209F)],
    'CurrencySymbols': [(0x20A0, 0x20CF)], 'CombiningMarksforSymbols': [(0x20D0, 0x20FF)], 'LetterlikeSymbols': [(0x2100, 0x214F)],
    'NumberForms': [(0x2150, 0x218F)], 'Arrows': [(0x2190, 0x21FF)], 'MathematicalOperators': [(0x2200, 0x22FF)],
    'MiscellaneousSymbols': [(0x2600, 0x26FF)], 'CJKSymbolsandPunctuation': [(0x3000, 0x303F)], 'Hiragana': [(0x3040, 0x309F)],
    'Katakana': [(0x30A0, 0x30FF)], 'CJKUnifiedIdeographs': [(0x4E00, 0x9FFF)], 'HangulSyllables': [(0xAC00, 0xD7A3)],
    'PrivateUse': [(0xE000, 0xF8FF), (0xF0000, 0xFFFFD), (0x100000, 0x10FFFD)],
    'Deseret': [(0x10400, 0x1044F)], 'MathematicalAlphanumericSymbols': [(0x1D400, 0x1D7FF)],
    'CJKUnifiedIdeographsExtensionB': [(0x20000, 0x2A6D6)],
}
BLOCK_NAMES = sorted(BLOCKS)

# simple case pairs inside the pool (the only case relation that can matter for pool strings)
_CASE = {}
for _u in range(0x41, 0x5B): _CASE[_u] = _u + 32; _CASE[_u + 32] = _u
for _u, _l in ((0xC0, 0xE0), (0xD6, 0xF6), (0xD8, 0xF8), (0x391, 0x3B1), (0x392, 0x3B2), (0x3A9, 0x3C9), (0x410, 0x430), (0x42F, 0x44F), (0x10400, 0x10428)):
    _CASE[_u] = _l; _CASE[_l] = _u


def full_case_variants(cp):
    """all single-character case relatives according to python's tables (used by a quirk model only)"""
    ch = chr(cp)
    out = {cp}
    for t in (ch.lower(), ch.upper(), ch.title(), ch.casefold()):
        if len(t) == 1:
            out.add(ord(t))
    for o in list(out):
        c2 = chr(o)
        for t in (c2.lower(), c2.upper(), c2.title()):
            if len(t) == 1:
                out.add(ord(t))
    return out


def case_variants(cp):
    o = _CASE.get(cp)
    return (cp,) if o is None else (cp, o)


# ---------------------------------------------------------------------------------------------------
#  Leaf semantics.  env: dict(icase, dotall, xsd, quirks=frozenset)
#  quirks (never used for a verdict; only to attribute an observed deviation to a named class):
#    'supp-cn'   every supplementary code point has category Cn (and therefore \w holds, \d fails)
#    'dot-lsps'  '.' also excludes U+2028 and U+2029
#    'dot-cr'    (XPath dialect) '.' excludes U+000D as well
# ---------------------------------------------------------------------------------------------------
class Env:
    __slots__ = ('icase', 'dotall', 'multiline', 'xsd', 'quirks')

    def __init__(self, xsd=True, icase=False, dotall=False, multiline=False, quirks=frozenset()):
        self.xsd, self.icase, self.dotall, self.multiline, self.quirks = xsd, icase, dotall, multiline, frozenset(quirks)

    def key(self):
        return (self.xsd, self.icase, self.dotall, self.multiline, self.quirks)


def _cat(cp, env):
    if cp >= 0x10000 and 'supp-cn' in env.quirks:
        return 'Cn'
    return POOL[cp][0]


def _plain_has(leaf, cp, env):
    """membership without case folding"""
    k = leaf[0]
    if k == 'lit':
        return cp == leaf[1]
    if k == 'rng':
        return leaf[1] <= cp <= leaf[2]
    if k == 'dot':
        if env.dotall:
            return True
        if cp == 0x0A:
            return False
        if cp == 0x0D:
            return not (env.xsd or 'dot-cr' in env.quirks)
        if cp in (0x2028, 0x2029) and 'dot-lsps' in env.quirks:
            return False
        return True
    if k == 'esc':
        c = leaf[1]
        lc = c.lower()
        if lc == 's':
            r = cp in (0x20, 0x09, 0x0A, 0x0D)
        elif lc == 'd':
            r = _cat(cp, env) == 'Nd'
        elif lc == 'w':
            r = _cat(cp, env)[0] not in 'PZC'
            if cp >= 0x10000 and 'supp-cn' in env.quirks:
                r = True      # the engine's \w table excludes only BMP code points
        elif lc == 'i':
            r = bool(POOL[cp][1])
        elif lc == 'c':
            r = bool(POOL[cp][2])
        else:
            raise ValueError(leaf)
        return r != c.isupper()
    if k == 'cat':
        g = _cat(cp, env)
        if cp >= 0x10000 and 'supp-cn' in env.quirks:
            r = leaf[1] == 'Cn'       # the engine files them under Cn only, not under the group C
        else:
            r = (g == leaf[1]) if len(leaf[1]) == 2 else (g[0] == leaf[1])
        return r != leaf[2]
    if k == 'blk':
        r = any(lo <= cp <= hi for lo, hi in BLOCKS[leaf[1]])
        return r != leaf[2]
    if k == 'cls':
        r = any(_plain_has(it, cp, env) for it in leaf[2])
        if leaf[1]:
            r = not r
        if r and leaf[3] is not None and _plain_has(leaf[3], cp, env):
            r = False
        return r
    raise ValueError(leaf)


def _icase_has(leaf, cp, env):
    """XPath 'i' flag: literals and ranges (also inside negated groups and subtractions) are expanded by
    their case variants; generators never combine 'i' with category / multi-character escapes."""
    k = leaf[0]
    if k in ('lit', 'rng'):
        return any(_plain_has(leaf, v, env) for v in case_variants(cp))
    if k == 'cls':
        if leaf[3] is not None and 'icase-subtraction-closure' in env.quirks:
            # engine: negation and subtraction are applied first, the resulting set is then closed under case
            return any(_plain_has(leaf, v, env) for v in full_case_variants(cp))
        r = any(_icase_has(it, cp, env) for it in leaf[2])
        if leaf[1]:
            r = not r
        if r and leaf[3] is not None and _icase_has(leaf[3], cp, env):
            r = False
        return r
    return _plain_has(leaf, cp, env)


def leaf_has(leaf, cp, env):
    return _icase_has(leaf, cp, env) if env.icase else _plain_has(leaf, cp, env)


LEAF_KINDS = ('lit', 'dot', 'esc', 'cat', 'blk', 'cls')


def is_leaf(n):
    return n[0] in LEAF_KINDS


# ---------------------------------------------------------------------------------------------------
#  Rendering an AST as pattern text
# ---------------------------------------------------------------------------------------------------
_META_XSD = set('.\\?*+{}()|[]')
_META_XP = _META_XSD | set('^$')


def _lit_out(cp, xsd, rnd=None, xmode=False):
    ch = chr(cp)
    if cp == 0x0A: return '\\n' if (xmode or rnd is None or rnd.random() < 0.7) else ch
    if cp == 0x0D: return '\\r' if (xmode or rnd is None or rnd.random() < 0.7) else ch
    if cp == 0x09: return '\\t' if (xmode or rnd is None or rnd.random() < 0.7) else ch
    if ch in (_META_XSD if xsd else _META_XP):
        return '\\' + ch
    if ch == '-' and rnd is not None and rnd.random() < 0.3:
        return '\\-'
    if ch == '^' and xsd and rnd is not None and rnd.random() < 0.3:
        return '\\^'
    return ch


def _lit_in_class(cp):
    ch = chr(cp)
    if cp == 0x0A: return '\\n'
    if cp == 0x0D: return '\\r'
    if cp == 0x09: return '\\t'
    if ch in '\\[]-^':
        return '\\' + ch
    return ch


def _esc_out(n):
    k = n[0]
    if k == 'esc':
        return '\\' + n[1]
    if k == 'cat':
        return ('\\P{' if n[2] else '\\p{') + n[1] + '}'
    if k == 'blk':
        return ('\\P{Is' if n[2] else '\\p{Is') + n[1] + '}'
    raise ValueError(n)


def _cls_out(n):
    o = ['[']
    if n[1]:
        o.append('^')
    for it in n[2]:
        if it[0] == 'lit':
            o.append(_lit_in_class(it[1]))
        elif it[0] == 'rng':
            o.append(_lit_in_class(it[1]) + '-' + _lit_in_class(it[2]))
        else:
            o.append(_esc_out(it))
    if n[3] is not None:
        o.append('-' + _cls_out(n[3]))
    o.append(']')
    return ''.join(o)


def quant_text(mn, mx, form):
    if form in ('*', '+', '?'):
        return form
    if form == '{n}':
        return '{%d}' % mn
    if form == '{n,}':
        return '{%d,}' % mn
    return '{%d,%d}' % (mn, mx)


def render(n, xsd=True, rnd=None, xmode=False):
    """pattern text of an AST.  rnd: optional Random for free lexical choices; xmode: insert ignorable white space"""
    out = []

    def sp():
        if xmode and rnd is not None and rnd.random() < 0.35:
            out.append(rnd.choice([' ', '\t', '\n', '  ']))

    def go(n, ctx):
        k = n[0]
        sp()
        if k == 'lit':
            out.append(_lit_out(n[1], xsd, rnd, xmode))
        elif k == 'dot':
            out.append('.')
        elif k in ('esc', 'cat', 'blk'):
            out.append(_esc_out(n))
        elif k == 'cls':
            out.append(_cls_out(n))
        elif k == 'eps':
            pass
        elif k == 'bol':
            out.append('^')
        elif k == 'eol':
            out.append('$')
        elif k == 'grp':
            out.append('(')
            go(n[1], 'top')
            sp()
            out.append(')')
        elif k == 'seq':
            for c in n[1]:
                if c[0] == 'alt':
                    raise ValueError('alt directly inside seq')
                go(c, 'seq')
        elif k == 'alt':
            if ctx != 'top':
                raise ValueError('alt needs a group')
            for i, c in enumerate(n[1]):
                if i:
                    sp()
                    out.append('|')
                go(c, 'alt')
        elif k == 'rep':
            a = n[1]
            if a[0] in ('seq', 'alt', 'rep', 'eps', 'bol', 'eol'):
                raise ValueError('quantified non-atom')
            go(a, 'rep')
            sp()
            out.append(quant_text(n[2], n[3], n[4]))
            if n[5]:
                out.append('?')
        else:
            raise ValueError(n)
    go(n, 'top')
    sp()
    return ''.join(out)


def walk(n):
    yield n
    k = n[0]
    if k in ('seq', 'alt'):
        for c in n[1]:
            yield from walk(c)
    elif k in ('grp', 'rep'):
        yield from walk(n[1])


def leaves(n):
    return [x for x in walk(n) if is_leaf(x)]


def features(n):
    """feature tags of an expression (coverage counters / finding classes)"""
    f = set()
    for x in walk(n):
        k = x[0]
        if k == 'rep':
            f.add('q' + x[4] + ('?' if x[5] else ''))
            if x[1][0] == 'grp':
                f.add('q-on-group')
        elif k == 'cls':
            f.add('cls')
            if x[1]: f.add('cls-neg')
            if x[3] is not None: f.add('cls-sub')
            for it in x[2]:
                f.add('cls-' + it[0])
        elif k == 'esc':
            f.add('\\' + x[1])
        elif k == 'cat':
            f.add('\\P' if x[2] else '\\p')
        elif k == 'blk':
            f.add('\\PIs' if x[2] else '\\pIs')
        elif k == 'lit':
            f.add('lit-supp' if x[1] >= 0x10000 else 'lit')
        else:
            f.add(k)
    return f


# ---------------------------------------------------------------------------------------------------
#  Reference matcher 1: Brzozowski derivatives over the AST, memoised into a DFA (anchor-free expressions)
# ---------------------------------------------------------------------------------------------------
class Deriv:
    """Terms are interned: 0 = empty set, 1 = epsilon, others via table.
    ('L', leafidx) ('S', a, b) ('A', (sorted ids)) ('R', a, mn, mx)"""

    def __init__(self, ast, env):
        self.env = env
        self.tab = [('0',), ('1',)]
        self.idx = {('0',): 0, ('1',): 1}
        self.leafs = []
        self.leafidx = {}
        self.nullm = {0: False, 1: True}
        self.dm = {}
        self.sig = {}
        self.sigid = {}
        self.start = self.conv(ast)

    # -- construction
    def mk(self, t):
        i = self.idx.get(t)
        if i is None:
            i = len(self.tab)
            self.tab.append(t)
            self.idx[t] = i
        return i

    def seq(self, a, b):
        if a == 0 or b == 0: return 0
        if a == 1: return b
        if b == 1: return a
        return self.mk(('S', a, b))

    def alt(self, xs):
        s = set()
        for x in xs:
            if x == 0:
                continue
            t = self.tab[x]
            if t[0] == 'A':
                s.update(t[1])
            else:
                s.add(x)
        if not s: return 0
        if len(s) == 1: return next(iter(s))
        return self.mk(('A', tuple(sorted(s))))

    def rep(self, a, mn, mx):
        if mx is not None and mx == 0: return 1
        if a == 0: return 1 if mn == 0 else 0
        if a == 1: return 1
        if mn == 1 and mx == 1: return a
        return self.mk(('R', a, mn, mx))

    def conv(self, n):
        k = n[0]
        if is_leaf(n):
            key = repr(n)
            i = self.leafidx.get(key)
            if i is None:
                i = len(self.leafs)
                self.leafs.append(n)
                self.leafidx[key] = i
            return self.mk(('L', i))
        if k == 'eps': return 1
        if k == 'grp': return self.conv(n[1])
        if k == 'seq':
            r = 1
            for c in reversed(n[1]):
                r = self.seq(self.conv(c), r)
            return r
        if k == 'alt':
            return self.alt([self.conv(c) for c in n[1]])
        if k == 'rep':
            return self.rep(self.conv(n[1]), n[2], n[3])
        raise ValueError('derivative matcher does not handle %r' % (n[0],))

    # -- semantics
    def nullable(self, x):
        r = self.nullm.get(x)
        if r is not None:
            return r
        t = self.tab[x]
        k = t[0]
        if k == 'L': r = False
        elif k == 'S': r = self.nullable(t[1]) and self.nullable(t[2])
        elif k == 'A': r = any(self.nullable(y) for y in t[1])
        else: r = t[2] == 0 or self.nullable(t[1])
        self.nullm[x] = r
        return r

    def signature(self, cp):
        s = self.sig.get(cp)
        if s is None:
            v = tuple(leaf_has(l, cp, self.env) for l in self.leafs)
            s = self.sigid.setdefault(v, (len(self.sigid), v))
            self.sig[cp] = s
        return s

    def d(self, x, s):
        """derivative of term x by a character with signature s=(id, bools)"""
        key = (x, s[0])
        r = self.dm.get(key)
        if r is not None:
            return r
        t = self.tab[x]
        k = t[0]
        if k in '01': r = 0
        elif k == 'L': r = 1 if s[1][t[1]] else 0
        elif k == 'S':
            r = self.seq(self.d(t[1], s), t[2])
            if self.nullable(t[1]):
                r = self.alt([r, self.d(t[2], s)])
        elif k == 'A':
            r = self.alt([self.d(y, s) for y in t[1]])
        else:
            a, mn, mx = t[1], t[2], t[3]
            r = self.seq(self.d(a, s), self.rep(a, max(mn - 1, 0), None if mx is None else mx - 1))
        self.dm[key] = r
        return r

    def run(self, cps, st=None):
        x = self.start if st is None else st
        for cp in cps:
            if x == 0:
                return 0
            x = self.d(x, self.signature(cp))
        return x

    def matches(self, cps):
        return self.nullable(self.run(cps))

    def all_upto(self, alphabet, maxlen):
        """verdicts for every string over `alphabet` (code points) up to maxlen: dict tuple(cps)->bool"""
        out = {}
        sigs = [(cp, self.signature(cp)) for cp in alphabet]

        def rec(prefix, x, depth):
            out[prefix] = self.nullable(x)
            if depth == maxlen:
                return
            for cp, s in sigs:
                rec(prefix + (cp,), self.d(x, s) if x else 0, depth + 1)
        rec((), self.start, 0)
        return out


# ---------------------------------------------------------------------------------------------------
#  Reference matcher 2: Thompson construction + position-set simulation (no backtracking).
#  Understands ^ and $ (with / without multi-line), anchored matching and leftmost search.
#  quirk 'dollar-final-eol': without 'm', $ also holds before a final newline (not used for verdicts).
# ---------------------------------------------------------------------------------------------------
class NFA:
    def __init__(self, ast, env, max_states=20000):
        self.env = env
        self.kind = []      # 'c' (leaf), 'e' (eps list), 'a' (assert bol/eol), 'acc'
        self.arg = []
        self.nxt = []
        self.max_states = max_states
        self.acc = self._new('acc', None, None)
        self.start = self._build(ast, self.acc)
        self._lm = {}

    def _new(self, kind, arg, nxt):
        if len(self.kind) >= self.max_states:
            raise OverflowError('reference NFA too large')
        self.kind.append(kind); self.arg.append(arg); self.nxt.append(nxt)
        return len(self.kind) - 1

    def _build(self, n, to):
        k = n[0]
        if is_leaf(n):
            return self._new('c', n, to)
        if k == 'eps':
            return to
        if k == 'grp':
            return self._build(n[1], to)
        if k in ('bol', 'eol'):
            return self._new('a', k, to)
        if k == 'seq':
            for c in reversed(n[1]):
                to = self._build(c, to)
            return to
        if k == 'alt':
            return self._new('e', None, [self._build(c, to) for c in n[1]])
        if k == 'rep':
            a, mn, mx = n[1], n[2], n[3]
            if mx is None:
                loop = self._new('e', None, None)
                body = self._build(a, loop)
                self.nxt[loop] = [body, to]
                cur = loop
            else:
                cur = to
                for _ in range(mx - mn):
                    body = self._build(a, cur)
                    cur = self._new('e', None, [body, to])
            for _ in range(mn):
                cur = self._build(a, cur)
            return cur
        raise ValueError(n)

    def _assert(self, kind, cps, pos, lo, hi):
        ml = self.env.multiline
        if kind == 'bol':
            if pos == lo:
                return True
            if not ml or pos <= lo:
                return False
            if 'ml-eol-chars' in self.env.quirks:
                return cps[pos - 1] in (0x0A, 0x0D, 0x2028, 0x2029)
            return cps[pos - 1] == 0x0A
        eols = (0x0A, 0x0D, 0x2028, 0x2029) if 'ml-eol-chars' in self.env.quirks else (0x0A,)
        if pos == hi:
            return True
        if ml:
            return cps[pos] in eols
        if 'dollar-final-eol' in self.env.quirks:
            return (pos + 1 == hi and cps[pos] in (0x0A, 0x0D, 0x2028, 0x2029)) or (pos + 2 == hi and cps[pos] == 0x0D and cps[pos + 1] == 0x0A)
        return False

    def _closure(self, seeds, cps, pos, lo, hi):
        """seeds: dict state -> smallest start position; returns the same for the eps/assert closure"""
        out = {}
        stack = list(seeds.items())
        while stack:
            s, st = stack.pop()
            o = out.get(s)
            if o is not None and o <= st:
                continue
            out[s] = st
            k = self.kind[s]
            if k == 'e':
                for t in self.nxt[s]:
                    stack.append((t, st))
            elif k == 'a':
                if self._assert(self.arg[s], cps, pos, lo, hi):
                    stack.append((self.nxt[s], st))
        return out

    def _has(self, s, cp):
        key = (s, cp)
        r = self._lm.get(key)
        if r is None:
            r = leaf_has(self.arg[s], cp, self.env)
            self._lm[key] = r
        return r

    def _step(self, cur, cp):
        nx = {}
        for s, st in cur.items():
            if self.kind[s] == 'c' and self._has(s, cp):
                t = self.nxt[s]
                o = nx.get(t)
                if o is None or st < o:
                    nx[t] = st
        return nx

    def full(self, cps, lo=0, hi=None):
        """anchored: cps[lo:hi] as a whole belongs to the language"""
        hi = len(cps) if hi is None else hi
        cur = self._closure({self.start: lo}, cps, lo, lo, hi)
        for pos in range(lo, hi):
            if not cur:
                return False
            cur = self._closure(self._step(cur, cps[pos]), cps, pos + 1, lo, hi)
        return self.acc in cur

    def search(self, cps, lo=0, hi=None):
        """leftmost start of a match of some substring of cps[lo:hi], or None"""
        hi = len(cps) if hi is None else hi
        best = None
        cur = {}
        for pos in range(lo, hi + 1):
            seeds = dict(cur)
            if best is None:
                seeds.setdefault(self.start, pos)
            cur = self._closure(seeds, cps, pos, lo, hi)
            if self.acc in cur:
                st = cur[self.acc]
                if best is None or st < best:
                    best = st
            if best is not None:
                # only threads that started at or before `best` can still improve the answer
                cur = {s: st for s, st in cur.items() if st < best}
                if not cur:
                    break
            if pos < hi:
                cur = self._step(cur, cps[pos])
        return best

    def ends_from(self, cps, p, lo=0, hi=None):
        """set of end positions e such that cps[p:e] matches when the match is attempted at p"""
        hi = len(cps) if hi is None else hi
        ends = set()
        cur = self._closure({self.start: p}, cps, p, lo, hi)
        pos = p
        while True:
            if self.acc in cur:
                ends.add(pos)
            if pos >= hi or not cur:
                break
            cur = self._closure(self._step(cur, cps[pos]), cps, pos + 1, lo, hi)
            pos += 1
        return ends


def has_anchor(ast):
    return any(x[0] in ('bol', 'eol') for x in walk(ast))


def nullable_ast(n):
    k = n[0]
    if is_leaf(n): return False
    if k in ('eps', 'bol', 'eol'): return True
    if k == 'grp': return nullable_ast(n[1])
    if k == 'seq': return all(nullable_ast(c) for c in n[1])
    if k == 'alt': return any(nullable_ast(c) for c in n[1])
    if k == 'rep': return n[2] == 0 or nullable_ast(n[1])
    raise ValueError(n)


# ---------------------------------------------------------------------------------------------------
#  Expression generator
# ---------------------------------------------------------------------------------------------------
_EASY = [ord(c) for c in 'abcxyz01 _-.:AB']
_SPECIAL_LITS = [ord(c) for c in '.\\?*+{}()|[]^$-'] + [0x0A, 0x0D, 0x09]


class Gen:
    """Random expression ASTs.  dialect 'xsd' | 'xpath'.  flags (xpath): subset of 'ismx'."""

    def __init__(self, rnd, dialect='xsd', flags='', maxdepth=4, budget=9):
        self.r = rnd
        self.xsd = dialect == 'xsd'
        self.flags = flags
        self.maxdepth = maxdepth
        self.budget = budget
        r = rnd
        # the expression's own small alphabet: makes strings and expression interact
        mode = r.random()
        if mode < 0.55:
            self.sigma = r.sample([97, 98, 99, 100], r.choice([2, 2, 3]))
        elif mode < 0.8:
            self.sigma = r.sample(_EASY, r.choice([2, 3]))
        else:
            self.sigma = r.sample(POOL_LIST, r.choice([2, 3]))
            if r.random() < 0.5:
                self.sigma[0] = r.choice(SUPP)
        if 'x' in flags:
            self.sigma = [c for c in self.sigma if c not in (0x20, 0x23)] or [97, 98]
        # 'i' is never combined with category / multi-character escapes (the two specifications of the
        # interaction differ between F&O editions); block escapes are case-closed by construction
        self.allow_cat = 'i' not in flags
        self.left = budget

    def lit(self):
        r = self.r
        x = r.random()
        if x < 0.8:
            cp = r.choice(self.sigma)
        elif x < 0.9:
            cp = r.choice(_SPECIAL_LITS)
        else:
            cp = r.choice(POOL_LIST)
        if 'x' in self.flags and cp in (0x20, 0x23, 0x09, 0x0A, 0x0D):
            cp = self.sigma[0]
        if not self.xsd and cp == 0x0D:
            cp = self.sigma[0]          # CR vs '.' is edition-dependent in the XPath dialect: keep CR out
        return ('lit', cp)

    def escape_leaf(self):
        r = self.r
        x = r.random()
        if x < 0.45:
            return ('esc', r.choice('sSiIcCdDwW'))
        if x < 0.8:
            # bias to categories that pool characters of sigma have
            if r.random() < 0.6:
                g = POOL[r.choice(self.sigma)][0]
                name = g if r.random() < 0.6 else g[0]
            else:
                name = r.choice(CATEGORIES)
            return ('cat', name, r.random() < 0.3)
        if r.random() < 0.6:
            cp = r.choice(self.sigma)
            cands = [b for b in BLOCK_NAMES if any(lo <= cp <= hi for lo, hi in BLOCKS[b])]
            name = cands[0] if cands else r.choice(BLOCK_NAMES)
        else:
            name = r.choice(BLOCK_NAMES)
        return ('blk', name, r.random() < 0.3)

    def rng(self):
        r = self.r
        a = r.choice(self.sigma) if r.random() < 0.7 else r.choice(POOL_LIST)
        if a in (0x0D,) and not self.xsd:
            a = 97
        span = r.choice([0, 1, 1, 2, 3, 5, 25, 300])
        lo = max(0x20 if a >= 0x20 else a, a - r.randint(0, span))
        hi = min(0x10FFFF, a + r.randint(0, span))
        # keep clear of the surrogate block
        if lo <= 0xDFFF and hi >= 0xD800:
            lo, hi = a, a
        return ('rng', lo, hi)

    def cls(self, depth=0):
        r = self.r
        items = []
        for _ in range(r.choice([1, 1, 2, 2, 3, 4])):
            x = r.random()
            if x < 0.4:
                items.append(self.lit())
            elif x < 0.8 or not self.allow_cat:
                items.append(self.rng())
            else:
                e = self.escape_leaf()
                items.append(e)
        neg = r.random() < 0.25
        sub = None
        if depth < 2 and r.random() < (0.3 if self.xsd else 0.2):
            sub = self.cls(depth + 1)
        return ('cls', neg, items, sub)

    def atom(self, depth):
        r = self.r
        self.left -= 1
        x = r.random()
        if depth < self.maxdepth and self.left > 0 and x < 0.25:
            return ('grp', self.expr(depth + 1))
        if x < 0.62:
            return self.lit()
        if x < 0.78:
            return self.cls()
        if x < 0.84:
            return ('dot',)
        if self.allow_cat:
            return self.escape_leaf()
        return self.lit()

    def quant(self, a):
        r = self.r
        f = r.choice(['*', '+', '?', '{n}', '{n,}', '{n,m}', '*', '+', '?', '{n,m}'])
        if f == '*': mn, mx = 0, None
        elif f == '+': mn, mx = 1, None
        elif f == '?': mn, mx = 0, 1
        elif f == '{n}': mn = r.choice([0, 1, 2, 2, 3]); mx = mn
        elif f == '{n,}': mn = r.choice([0, 1, 2, 3]); mx = None
        else:
            mn = r.choice([0, 0, 1, 1, 2]); mx = mn + r.choice([0, 1, 1, 2, 3])
        lazy = (not self.xsd) and r.random() < 0.2
        if lazy and mx is None and nullable_ast(a):
            lazy = False
        return ('rep', a, mn, mx, f, lazy)

    def piece(self, depth):
        a = self.atom(depth)
        if self.r.random() < 0.4:
            return self.quant(a)
        return a

    def branch(self, depth):
        r = self.r
        n = r.choice([1, 1, 2, 2, 3, 4]) if depth < 3 else r.choice([1, 2])
        ps = []
        for _ in range(n):
            if self.left <= 0 and ps:
                break
            ps.append(self.piece(depth))
        if not ps:
            return ('eps',)
        return ps[0] if len(ps) == 1 else ('seq', ps)

    def expr(self, depth=0):
        r = self.r
        n = 1
        if r.random() < (0.3 if depth == 0 else 0.5):
            n = r.choice([2, 2, 3])
        bs = []
        for _ in range(n):
            if r.random() < 0.04:
                bs.append(('eps',))
            else:
                bs.append(self.branch(depth))
        return bs[0] if len(bs) == 1 else ('alt', bs)

    def top(self):
        e = self.expr(0)
        if not self.xsd and self.r.random() < 0.35:
            # anchors at the outside of the top-level branches only (their meaning there is uncontroversial)
            def anch(b):
                parts = list(b[1]) if b[0] == 'seq' else ([] if b[0] == 'eps' else [b])
                if self.r.random() < 0.6: parts.insert(0, ('bol',))
                if self.r.random() < 0.6: parts.append(('eol',))
                return ('seq', parts) if len(parts) != 1 else parts[0]
            if e[0] == 'alt':
                e = ('alt', [anch(b) for b in e[1]])
            else:
                e = anch(e)
        return e


def sample_member(ast, env, rnd, maxrep=3):
    """a random member of L(ast) as a list of code points drawn from the pool, or None when a leaf has no
    pool character (anchors are ignored)"""
    out = []

    def pick(leaf):
        cands = [cp for cp in POOL_LIST if leaf_has(leaf, cp, env)]
        if not cands:
            raise LookupError
        small = [c for c in cands if c < 0x80]
        return rnd.choice(small if small and rnd.random() < 0.6 else cands)

    def go(n):
        k = n[0]
        if is_leaf(n): out.append(pick(n))
        elif k in ('eps', 'bol', 'eol'): pass
        elif k == 'grp': go(n[1])
        elif k == 'seq':
            for c in n[1]: go(c)
        elif k == 'alt': go(rnd.choice(n[1]))
        elif k == 'rep':
            hi = n[3] if n[3] is not None else n[2] + rnd.choice([0, 1, 2, maxrep, 2 * maxrep])
            for _ in range(rnd.randint(n[2], hi)): go(n[1])
    try:
        go(ast)
    except LookupError:
        return None
    return out


def interesting_points(ast, env):
    """pool code points at which the expression's leaves change their mind (literals, range ends +-1,
    one member and one non-member of every escape), used for 1-character strings and alphabets"""
    pts = []

    def add(cp):
        if cp in POOL and cp not in pts:
            pts.append(cp)

    def leafpts(l):
        k = l[0]
        if k == 'lit':
            add(l[1])
            for v in case_variants(l[1]): add(v)
        elif k == 'rng':
            for cp in (l[1] - 1, l[1], l[1] + 1, l[2] - 1, l[2], l[2] + 1):
                add(cp)
            ins = [cp for cp in POOL_LIST if l[1] <= cp <= l[2]]
            for cp in ins[:2]: add(cp)
        elif k == 'cls':
            for it in l[2]: leafpts(it)
            if l[3] is not None: leafpts(l[3])
        elif k == 'dot':
            for cp in (0x0A, 0x0D, 0x2028, 0x61): add(cp)
        else:
            yes = [cp for cp in POOL_LIST if leaf_has(l, cp, env)]
            no = [cp for cp in POOL_LIST if not leaf_has(l, cp, env)]
            for lst in (yes, no):
                if lst:
                    add(lst[0]); add(lst[len(lst) // 2]); add(lst[-1])
    for l in leaves(ast):
        leafpts(l)
    return pts


# ---------------------------------------------------------------------------------------------------
#  Case-insensitive mode: code points outside the pool whose case relatives are pool characters.
#  A range containing one of them (without this model knowing) could change a pool character's verdict,
#  so generated ranges avoid them when the 'i' flag is on.
# ---------------------------------------------------------------------------------------------------
_TROUBLE = None


def case_troublemakers():
    global _TROUBLE
    if _TROUBLE is None:
        pool_fold = set()
        for cp in POOL:
            ch = chr(cp)
            pool_fold.update((ch, ch.lower(), ch.upper(), ch.casefold(), ch.title()))
        t = set()
        for cp in list(range(0x80, 0xD800)) + list(range(0xE000, 0x20000)):
            if cp in POOL:
                continue
            ch = chr(cp)
            if {ch.lower(), ch.upper(), ch.casefold(), ch.title()} & pool_fold:
                t.add(cp)
        _TROUBLE = sorted(t)
    return _TROUBLE


def icase_safe(ast):
    tr = case_troublemakers()

    def rng_ok(lo, hi):
        import bisect
        i = bisect.bisect_left(tr, lo)
        return not (i < len(tr) and tr[i] <= hi)

    def leaf_ok(l):
        if l[0] == 'rng':
            return rng_ok(l[1], l[2])
        if l[0] == 'cls':
            if l[1] and l[3] is not None:
                # negated group with subtraction: the complement contains every case troublemaker (U+017F folds to s/S ...), and
                # the engine closes the set under case AFTER negation and subtraction (known quirk icase-subtraction-closure);
                # verdicts are attributed to that quirk, reported match positions cannot be -- not generated under 'i'
                return False
            return all(leaf_ok(i) for i in l[2]) and (l[3] is None or leaf_ok(l[3]))
        return l[0] in ('lit', 'dot', 'blk')
    return all(leaf_ok(l) for l in leaves(ast))


def xmode_safe(ast):
    """no white space / '#' as class member or range end (the two F&O editions differ on stripping inside classes)"""
    bad = (0x20, 0x09, 0x0A, 0x0D, 0x23)

    def leaf_ok(l):
        if l[0] == 'lit':
            return l[1] not in bad
        if l[0] == 'rng':
            return l[1] not in bad and l[2] not in bad
        if l[0] == 'cls':
            return all(leaf_ok(i) for i in l[2]) and (l[3] is None or leaf_ok(l[3]))
        return True
    return all(leaf_ok(l) for l in leaves(ast))


def generate(rnd, dialect='xsd', flags=''):
    """one expression AST fit for judging under the given dialect/flags"""
    for _ in range(50):
        g = Gen(rnd, dialect, flags, maxdepth=rnd.choice([2, 3, 4]), budget=rnd.choice([3, 5, 7, 9, 12]))
        a = g.top()
        if 'i' in flags and not icase_safe(a):
            continue
        if 'x' in flags and not xmode_safe(a):
            continue
        return a
    return ('lit', 97)


# ---------------------------------------------------------------------------------------------------
#  Structure analysis used to name finding classes, and equivalence-preserving rewrites used to confirm them
# ---------------------------------------------------------------------------------------------------
def max_len_zero(n):
    k = n[0]
    if is_leaf(n): return False
    if k in ('eps', 'bol', 'eol'): return True
    if k == 'grp': return max_len_zero(n[1])
    if k in ('seq', 'alt'): return all(max_len_zero(c) for c in n[1])
    if k == 'rep': return n[3] == 0 or max_len_zero(n[1])
    raise ValueError(n)


def has_choice(n):
    """the operand can match in more than one 'shape' (alternation or a variable quantifier inside)"""
    for x in walk(n):
        if x[0] == 'alt' and len(x[1]) > 1:
            return True
        if x[0] == 'rep' and x[2] != x[3]:
            return True
    return False


def is_closure(n):
    """what the engine compiles as a closure: every quantifier except '?' and fixed counts"""
    return n[0] == 'rep' and n[4] != '?' and n[2] != n[3]


def closures(ast):
    """[(path, info)] for every closure; info: unbounded, op_nullable, op_choice, cont_nullable, cont_empty"""
    out = []

    def visit(n, path, cn, ce, cv, first):
        k = n[0]
        if k == 'seq':
            ch = n[1]
            for i, c in enumerate(ch):
                rest = ch[i + 1:]
                visit(c, path + (i,), cn and all(nullable_ast(x) for x in rest), ce and all(max_len_zero(x) for x in rest),
                      cv or any(varlen(x) for x in rest), first and all(nullable_ast(x) for x in ch[:i]))
        elif k == 'alt':
            for i, c in enumerate(n[1]):
                visit(c, path + (i,), cn, ce, cv, first)
        elif k == 'grp':
            visit(n[1], path + (0,), cn, ce, cv, first)
        elif k == 'rep':
            if is_closure(n):
                out.append((path, dict(unbounded=n[3] is None, op_nullable=nullable_ast(n[1]), op_choice=has_choice(n[1]),
                                       cont_nullable=cn, cont_empty=ce, cont_var=cv, form=n[4], first=first,
                                       op_dot=n[1][0] == 'dot' or (n[1][0] == 'grp' and n[1][1][0] == 'dot'),
                                       op_class=n[1][0] in ('cls', 'esc', 'cat', 'blk'))))
            loops = n[3] is None or n[3] > 1
            visit(n[1], path + (0,), cn, ce and not loops, cv or n[2] != n[3] or (loops and varlen(n[1])), first)
    visit(ast, (), True, True, False, True)
    return out


def min_len(n):
    k = n[0]
    if is_leaf(n): return 1
    if k in ('eps', 'bol', 'eol'): return 0
    if k == 'grp': return min_len(n[1])
    if k == 'seq': return sum(min_len(c) for c in n[1])
    if k == 'alt': return min(min_len(c) for c in n[1])
    if k == 'rep': return n[2] * min_len(n[1])
    raise ValueError(n)


def max_len(n):
    """None = unbounded"""
    k = n[0]
    if is_leaf(n): return 1
    if k in ('eps', 'bol', 'eol'): return 0
    if k == 'grp': return max_len(n[1])
    if k == 'seq':
        t = 0
        for c in n[1]:
            m = max_len(c)
            if m is None: return None
            t += m
        return t
    if k == 'alt':
        t = 0
        for c in n[1]:
            m = max_len(c)
            if m is None: return None
            t = max(t, m)
        return t
    if k == 'rep':
        m = max_len(n[1])
        if m == 0 or n[3] == 0: return 0
        if m is None or n[3] is None: return None
        return m * n[3]
    raise ValueError(n)


def varlen(n):
    return min_len(n) != max_len(n)


def P_varlen_cont(info):
    """closure whose continuation to the end of the expression can succeed with different lengths"""
    return info['cont_var']


def P_leading_dot(info):
    """closure over '.' that can start a match"""
    return info['first'] and info['op_dot']


def unnegate_classes(ast):
    """[^items] (no subtraction) -> [\\x01-\\x{10FFFF}-[items]] : same language on strings without U+0000"""
    def go(n):
        k = n[0]
        if k == 'cls' and n[1] and n[3] is None:
            return ('cls', False, [('rng', 1, 0x10FFFF)], ('cls', False, list(n[2]), None))
        if k in ('seq', 'alt'): return (k, [go(c) for c in n[1]])
        if k == 'grp': return ('grp', go(n[1]))
        if k == 'rep': return ('rep', go(n[1]), n[2], n[3], n[4], n[5])
        return n
    return go(ast)


def P_nullable_cont(info):
    """class (a): closure whose continuation up to the end of the expression is nullable and not empty"""
    return info['cont_nullable'] and not info['cont_empty']


def P_end_choice(info):
    """class (c): unbounded closure at the very end of the expression whose operand has alternatives"""
    return info['unbounded'] and info['cont_empty'] and info['op_choice']


def P_unbounded_nullable(info):
    """class (b): unbounded closure over an operand that can match the empty string"""
    return info['unbounded'] and info['op_nullable']


def _atomize(n):
    return n if (is_leaf(n) or n[0] == 'grp') else ('grp', n)


def rewrite_closures(ast, pred, L):
    """replace every closure selected by pred(info) by a union of fixed repetition counts that is equivalent
    on strings of at most L characters"""
    info = dict(closures(ast))

    def go(n, path):
        k = n[0]
        if k in ('seq', 'alt'):
            return (k, [go(c, path + (i,)) for i, c in enumerate(n[1])])
        if k == 'grp':
            return ('grp', go(n[1], path + (0,)))
        if k == 'rep':
            a = go(n[1], path + (0,))
            inf = info.get(path)
            if inf is not None and pred(inf):
                hi = n[3] if n[3] is not None else max(n[2], L)
                alts = []
                for c in range(n[2], hi + 1):
                    alts.append(('eps',) if c == 0 else (a if c == 1 else ('rep', a, c, c, '{n}', False)))
                return ('grp', ('alt', alts)) if len(alts) > 1 else ('grp', alts[0])
            return ('rep', a, n[2], n[3], n[4], n[5])
        return n
    return go(ast, ())


def nonnull(n):
    """an AST for L(n) minus the empty string, or None when that is empty.  Not defined with anchors inside."""
    k = n[0]
    if is_leaf(n): return n
    if k == 'eps': return None
    if k in ('bol', 'eol'): raise ValueError('anchor')
    if k == 'grp':
        x = nonnull(n[1])
        return None if x is None else ('grp', x)
    if k == 'alt':
        xs = [x for x in (nonnull(c) for c in n[1]) if x is not None]
        if not xs: return None
        return xs[0] if len(xs) == 1 else ('alt', xs)
    if k == 'seq':
        ch = n[1]
        if not ch: return None
        a, rest = ch[0], ch[1:]
        if not rest: return nonnull(a)
        b = rest[0] if len(rest) == 1 else ('seq', rest)
        if not nullable_ast(a):
            return n
        na, nb = nonnull(a), nonnull(b)
        xs = []
        if na is not None:
            xs.append(('seq', [_atomize(na) if na[0] == 'alt' else na, _atomize(b) if b[0] == 'alt' else b]))
        if nb is not None:
            xs.append(nb)
        if not xs: return None
        return xs[0] if len(xs) == 1 else ('alt', xs)
    if k == 'rep':
        a, mn, mx = n[1], n[2], n[3]
        if mx == 0: return None
        if not nullable_ast(a):
            if mn >= 1: return n
            return ('rep', a, 1, mx, '{n,m}' if mx is not None else '{n,}', False)
        na = nonnull(a)
        if na is None: return None
        return ('rep', _atomize(na), 1, mx, '{n,m}' if mx is not None else '{n,}', False)
    raise ValueError(n)


def flatten(n):
    """normalise nesting so that render() accepts the tree (seq inside seq, alt inside seq -> group)"""
    k = n[0]
    if k == 'seq':
        out = []
        for c in n[1]:
            c = flatten(c)
            if c[0] == 'seq': out.extend(c[1])
            elif c[0] == 'alt': out.append(('grp', c))
            elif c[0] == 'eps': pass
            else: out.append(c)
        if not out: return ('eps',)
        return out[0] if len(out) == 1 else ('seq', out)
    if k == 'alt':
        out = []
        for c in n[1]:
            c = flatten(c)
            if c[0] == 'alt': out.extend(c[1])
            else: out.append(c)
        return ('alt', out)
    if k == 'grp':
        return ('grp', flatten(n[1]))
    if k == 'rep':
        a = flatten(n[1])
        return ('rep', _atomize(a), n[2], n[3], n[4], n[5])
    return n


def rewrite_unbounded_nullable(ast):
    """replace (X){n,} with nullable X by (X minus empty)* -- same language, outside class (b)"""
    def go(n):
        k = n[0]
        if k in ('seq', 'alt'):
            return (k, [go(c) for c in n[1]])
        if k == 'grp':
            return ('grp', go(n[1]))
        if k == 'rep':
            a = go(n[1])
            if n[3] is None and nullable_ast(a):
                x = nonnull(a)
                if x is None:
                    return ('eps',)
                return ('rep', _atomize(x), 0, None, '*', False)
            return ('rep', a, n[2], n[3], n[4], n[5])
        return n
    return flatten(go(ast))


# ---------------------------------------------------------------------------------------------------
#  String workload
# ---------------------------------------------------------------------------------------------------
def u16len(cps):
    return sum(2 if c >= 0x10000 else 1 for c in cps)


def to_str(cps):
    return ''.join(map(chr, cps))


def strings_for(ast, env, rnd, big=False, nlong=24):
    """(alphabet, [tuple(cps)...]) -- every string up to length 4 over a 3..4 letter alphabet taken from the
    expression's own characters plus one foreign character; every interesting point alone; members of the
    language, their one-edit neighbours and random strings (up to 40 characters, with supplementary characters)."""
    pts = interesting_points(ast, env)
    if not env.xsd:
        pts = [c for c in pts if c != 0x0D]      # '.' against CR differs between F&O editions: never asked
    lits = [l[1] for l in leaves(ast) if l[0] == 'lit' and l[1] in POOL and (env.xsd or l[1] != 0x0D)]
    order = []
    for cp in lits + pts:
        if cp not in order:
            order.append(cp)
    accepted = [cp for cp in order if any(leaf_has(l, cp, env) for l in leaves(ast))]
    k = 3 if big else 2
    alpha = []
    src = accepted[:6]
    rnd.shuffle(src)
    for cp in src[:k]:
        alpha.append(cp)
    for cp in order:
        if len(alpha) >= k:
            break
        if cp not in alpha:
            alpha.append(cp)
    foreign = [cp for cp in (0x71, 0x51, 0x37, 0x20AC, 0x4E00, 0x20000) if cp not in order]
    f = rnd.choice(foreign[:3]) if foreign else next(cp for cp in POOL_LIST if cp not in order)
    if has_anchor(ast) and rnd.random() < 0.7:
        f = 0x0A
    alpha.append(f)
    seen = set()
    out = []

    def add(t):
        t = tuple(t)
        if t not in seen:
            seen.add(t)
            out.append(t)
    import itertools
    for L in range(5):
        for t in itertools.product(alpha, repeat=L):
            add(t)
    if not env.xsd:
        pts = [c for c in pts if c != 0x0D]
    for cp in pts:
        add((cp,))
    wide = list(dict.fromkeys(order + alpha + SUPP[:3] + [0x0A, 0x20]))
    if not env.xsd:
        wide = [c for c in wide if c != 0x0D]
    # a backtracking engine needs time exponential in the string length for a choice inside a repetition:
    # such expressions get long strings of at most 12 characters (the verdict is still compared)
    def big(x):
        return x[0] == 'rep' and (x[3] is None or x[3] >= 3)
    risky = any(big(x) and has_choice(x[1]) for x in walk(ast))
    nested = any(big(x) and any(big(y) for y in walk(x[1])) for x in walk(ast))      # repetition inside repetition
    cap = 6 if (nested or risky) else 60       # (12 for risky until `(.|.|.)+c+?` on 15 characters took minutes: 3^n paths; 8+2 still tripped the watchdog on a loaded machine)
    for i in range(nlong):
        m = i % 3
        s = sample_member(ast, env, rnd, maxrep=1 if nested else (2 if risky else 3))
        if s is None or m == 2:
            s = [rnd.choice(wide) for _ in range(rnd.choice([5, 6, 7] if nested else ([5, 6, 8, 12] if risky else [5, 6, 8, 12, 20, 40])))]
        elif m == 1 and s:
            j = rnd.randrange(len(s))
            op = rnd.random()
            if op < 0.35: del s[j]
            elif op < 0.7: s.insert(j, rnd.choice(wide))
            else: s[j] = rnd.choice(wide)
        if len(s) > cap:
            s = s[:cap]
        if not env.xsd:
            s = [c for c in s if c != 0x0D]
        add(s)
        if not env.xsd and i % 4 == 0:
            # search semantics: embed in context
            emb = [rnd.choice(wide)] * rnd.randint(1, 3) + list(s) + [rnd.choice(wide)] * rnd.randint(0, 2)
            add(emb if not (risky or nested) else emb[:cap])
    return alpha, out


# ---------------------------------------------------------------------------------------------------
#  Malformed-expression mutants: (pattern text, operator).  Every operator yields text that is outside the
#  regex grammar of XSD 1.0 *and* 1.1 (xsd) / of F&O (xpath), whatever valid context surrounds it.
# ---------------------------------------------------------------------------------------------------
_BAD_ESC = 'aAbBeEfFgGhHjJkKlLmMoOqQRTuUvVxXyYzZ'


def _ctx(rnd, dialect):
    """a short valid context expression without top-level alternation"""
    g = Gen(rnd, dialect, '', maxdepth=2, budget=3)
    n = g.branch(1)
    return render(n, dialect == 'xsd', rnd)


def mutants(rnd, dialect, n):
    xsd = dialect == 'xsd'
    ops = ['unclosed-group', 'unopened-group', 'leading-quantifier', 'quantifier-after-bar', 'quantifier-after-lparen',
           'double-quantifier', 'bad-quantity', 'unclosed-class', 'empty-class', 'empty-neg-class', 'reversed-range',
           'bad-escape', 'trailing-backslash', 'bad-category', 'unclosed-category', 'open-brace-category-at-end', 'bare-close-bracket', 'bare-brace', 'bracket-in-class',
           'lone-high-surrogate']
    if xsd:
        ops += ['lazy-quantifier', 'dollar-escape', 'backreference']
    else:
        ops += ['backref-missing-group']
    out = []
    for i in range(n):
        op = ops[i % len(ops)]
        A = _ctx(rnd, dialect) if rnd.random() < 0.7 else ''
        B = _ctx(rnd, dialect) if rnd.random() < 0.7 else ''
        atom = rnd.choice(['a', '.', '[ab]', '(ab)', '\\d', '\\p{L}'])
        q = rnd.choice(['*', '+', '?', '{2}', '{1,2}', '{0,}'])
        if op == 'unclosed-group': p = A + '(' + B
        elif op == 'unopened-group': p = A + ')' + B
        elif op == 'leading-quantifier': p = rnd.choice(['*', '+', '?']) + B
        elif op == 'quantifier-after-bar': p = A + '|' + rnd.choice(['*', '+', '?']) + B
        elif op == 'quantifier-after-lparen': p = A + '(' + rnd.choice(['*', '+', '?']) + B + ')'
        elif op == 'double-quantifier':
            q2 = rnd.choice(['*', '+', '{2}', '{1,}']) if (not xsd or rnd.random() < 0.7) else '?'
            if not xsd and q2 == '?': q2 = '*'
            p = A + atom + q + q2 + B
        elif op == 'lazy-quantifier': p = A + atom + q + '?' + B
        elif op == 'bad-quantity': p = A + atom + rnd.choice(['{}', '{,3}', '{2', '{2,', '{x}', '{-1}', '{2,x}', '{ 2}', '{2 }']) + B
        elif op == 'unclosed-class': p = A + rnd.choice(['[ab', '[', '[a-', '[^a', '[a-c-[b]'])
        elif op == 'empty-class': p = A + '[]' + rnd.choice(['', 'a', 'ab'])
        elif op == 'empty-neg-class': p = A + '[^]' + rnd.choice(['', 'a', 'ab'])
        elif op == 'reversed-range':
            lo, hi = sorted(rnd.sample('abcdefgh0123456789', 2))
            p = A + '[' + rnd.choice(['', 'x', '^']) + hi + '-' + lo + ']' + B
        elif op == 'bad-escape': p = A + '\\' + rnd.choice(_BAD_ESC) + B
        elif op == 'trailing-backslash': p = A + '\\'
        elif op == 'bad-category':
            p = A + rnd.choice(['\\p{Xx}', '\\p{}', '\\pL', '\\P{Lx}', '\\p{l}', '\\p{LU}', '\\p{Letter}', '\\p{ L}']) + B
        elif op == 'unclosed-category':
            p = A + rnd.choice(['\\p{L', '\\p', '\\P', '\\p{IsGreek'])
        elif op == 'open-brace-category-at-end':
            p = A + rnd.choice(['\\p{', '\\P{'])
        elif op == 'bare-close-bracket': p = A + ']' + B
        elif op == 'bare-brace': p = A + rnd.choice(['}', '{']) + B if A == '' or rnd.random() < 0.5 else A + '}' + B
        elif op == 'bracket-in-class': p = A + rnd.choice(['[a[b]', '[[]', '[a[]']) + B
        elif op == 'dollar-escape': p = A + '\\$' + B
        elif op == 'backreference': p = '(a)' + A + '\\1' + B
        elif op == 'backref-missing-group': p = 'a' + '\\' + rnd.choice('123') + 'b' if rnd.random() < 0.5 else '(a)\\2'
        elif op == 'lone-high-surrogate': p = A + rnd.choice(['a', '', '[', '[a-']) + '\ud800' + rnd.choice(['b', ']', 'b]'])
        else: raise ValueError(op)
        out.append((p, op))
    return out


# ---------------------------------------------------------------------------------------------------
#  JSON round trip of ASTs (witness files)
# ---------------------------------------------------------------------------------------------------
def ast_from_json(j):
    tag = j[0]
    if tag in ('seq', 'alt'):
        return (tag, [ast_from_json(c) for c in j[1]])
    if tag == 'grp':
        return ('grp', ast_from_json(j[1]))
    if tag == 'rep':
        return ('rep', ast_from_json(j[1]), j[2], j[3], j[4], j[5])
    if tag == 'cls':
        return ('cls', j[1], [ast_from_json(i) for i in j[2]], ast_from_json(j[3]) if j[3] else None)
    return tuple(j)


class Ref:
    """Expected observations for one expression under one dialect/flag set (both matchers behind one face)."""

    def __init__(self, ast, dialect, flags='', quirks=frozenset()):
        self.ast = ast
        self.flags = flags
        self.xsd = dialect == 'xsd'
        self.env = Env(xsd=self.xsd, icase='i' in flags, dotall='s' in flags, multiline='m' in flags, quirks=quirks)
        self.anch = has_anchor(ast)
        self._d = None
        self._n = None

    @property
    def deriv(self):
        if self._d is None:
            self._d = Deriv(self.ast, self.env)
        return self._d

    @property
    def nfa(self):
        if self._n is None:
            self._n = NFA(self.ast, self.env)
        return self._n

    def verdict(self, cps, lo=0, hi=None):
        """what matches() must return for the window [lo,hi) of cps"""
        hi = len(cps) if hi is None else hi
        if self.xsd:
            return self.deriv.matches(cps[lo:hi])
        return self.nfa.search(cps, lo, hi) is not None

    def start(self, cps, lo=0, hi=None):
        if self.xsd:
            return lo if self.verdict(cps, lo, hi) else None
        return self.nfa.search(cps, lo, hi)


# ---------------------------------------------------------------------------------------------------
#  One-step reductions of an AST (for shrinking a disagreement to a local minimum)
# ---------------------------------------------------------------------------------------------------
def reductions(ast):
    """smaller expressions derived from ast by one local simplification (each result is render()-able)"""
    out = []
    seen = {repr(ast)}

    def emit(n):
        try:
            n = flatten(n)
            render(n)
        except ValueError:
            return
        k = repr(n)
        if k not in seen:
            seen.add(k)
            out.append(n)

    def rec(n, put):
        """put(x): the whole expression with n replaced by x"""
        k = n[0]
        if k in ('seq', 'alt'):
            ch = n[1]
            for i in range(len(ch)):
                rest = ch[:i] + ch[i + 1:]
                emit(put((k, rest) if len(rest) > 1 else (rest[0] if rest else ('eps',))))
            for i, c in enumerate(ch):
                emit(put(c))
                rec(c, lambda x, i=i: put((k, ch[:i] + [x] + ch[i + 1:])))
        elif k == 'grp':
            emit(put(n[1]))
            rec(n[1], lambda x: put(('grp', x)))
        elif k == 'rep':
            a, mn, mx, form, lazy = n[1:]
            emit(put(a))
            if lazy:
                emit(put(('rep', a, mn, mx, form, False)))
            if mn > 0:
                emit(put(('rep', a, mn - 1, mx, '{n,m}' if mx is not None else '{n,}', lazy)))
            if mx is not None and mx > mn:
                emit(put(('rep', a, mn, mx - 1, '{n,m}', lazy)))
            if mx is None:
                emit(put(('rep', a, mn, mn + 2, '{n,m}', lazy)))
            if form in ('*', '+', '?'):
                emit(put(('rep', a, mn, mx, '{n,}' if mx is None else '{n,m}', lazy)))
            rec(a, lambda x: put(('rep', _atomize(x), mn, mx, form, lazy)))
        elif k == 'cls':
            neg, items, sub = n[1], n[2], n[3]
            if sub is not None:
                emit(put(('cls', neg, items, None)))
                rec(sub, lambda x: put(('cls', neg, items, x)) if x[0] == 'cls' else put(('cls', neg, items, ('cls', False, [x], None))))
            if neg:
                emit(put(('cls', False, items, sub)))
            if len(items) > 1:
                for i in range(len(items)):
                    emit(put(('cls', neg, items[:i] + items[i + 1:], sub)))
            for i, it in enumerate(items):
                if it[0] == 'rng':
                    if it[1] != it[2]:
                        emit(put(('cls', neg, items[:i] + [('rng', it[1], it[1])] + items[i + 1:], sub)))
                        emit(put(('cls', neg, items[:i] + [('rng', it[2], it[2])] + items[i + 1:], sub)))
                    else:
                        emit(put(('cls', neg, items[:i] + [('lit', it[1])] + items[i + 1:], sub)))
            if not neg and sub is None and len(items) == 1 and items[0][0] != 'rng':
                emit(put(items[0]))
    rec(ast, lambda x: x)
    return out


def class_overlaps(cls):
    """the positive items of a class (or of its subtrahend) contain two ranges/literals that overlap or touch out of order"""
    items = [(i[1], i[1]) if i[0] == 'lit' else (i[1], i[2]) for i in cls[2] if i[0] in ('lit', 'rng')]
    for x in range(len(items)):
        for y in range(x + 1, len(items)):
            if items[x][0] <= items[y][1] and items[y][0] <= items[x][1]:
                return True
    return cls[3] is not None and class_overlaps(cls[3])


def norm_classes(ast):
    """same language; the literal/range members of every class become disjoint, non-adjacent, ascending ranges"""
    def nc(c):
        rs = sorted((i[1], i[1]) if i[0] == 'lit' else (i[1], i[2]) for i in c[2] if i[0] in ('lit', 'rng'))
        merged = []
        for lo, hi in rs:
            if merged and lo <= merged[-1][1] + 1:
                merged[-1][1] = max(merged[-1][1], hi)
            else:
                merged.append([lo, hi])
        items = [('lit', lo) if lo == hi else ('rng', lo, hi) for lo, hi in merged] + [i for i in c[2] if i[0] not in ('lit', 'rng')]
        return ('cls', c[1], items, nc(c[3]) if c[3] is not None else None)

    def go(n):
        k = n[0]
        if k == 'cls': return nc(n)
        if k in ('seq', 'alt'): return (k, [go(c) for c in n[1]])
        if k == 'grp': return ('grp', go(n[1]))
        if k == 'rep': return ('rep', go(n[1]), n[2], n[3], n[4], n[5])
        return n
    return go(ast)


def leading_dot_closure(ast):
    """some match can begin inside a closure (any quantifier but '?') whose operand can begin with '.'"""
    def starts_with_dot(n):
        k = n[0]
        if k == 'dot': return True
        if is_leaf(n) or k in ('eps', 'bol', 'eol'): return False
        if k == 'grp': return starts_with_dot(n[1])
        if k == 'rep': return starts_with_dot(n[1])
        if k == 'alt': return any(starts_with_dot(c) for c in n[1])
        if k == 'seq':
            for c in n[1]:
                if starts_with_dot(c): return True
                if not nullable_ast(c): return False
            return False
        return False

    def first(n):
        k = n[0]
        if is_leaf(n) or k in ('eps', 'bol', 'eol'): return False
        if k == 'grp': return first(n[1])
        if k == 'alt': return any(first(c) for c in n[1])
        if k == 'rep':
            if n[4] not in ('+', '?') and starts_with_dot(n[1]): return True
            return first(n[1])
        if k == 'seq':
            for c in n[1]:
                if first(c): return True
                if not nullable_ast(c): return False
            return False
        return False
    return first(ast)


def leading_dot_alternative(ast):
    """some match can begin with a '.' that stands in a second or later branch of an alternation"""
    def starts_with_dot(n):
        k = n[0]
        if k == 'dot': return True
        if is_leaf(n) or k in ('eps', 'bol', 'eol'): return False
        if k in ('grp', 'rep'): return starts_with_dot(n[1])
        if k == 'alt': return any(starts_with_dot(c) for c in n[1])
        if k == 'seq':
            for c in n[1]:
                if starts_with_dot(c): return True
                if not nullable_ast(c): return False
        return False

    def first(n):
        k = n[0]
        if is_leaf(n) or k in ('eps', 'bol', 'eol'): return False
        if k == 'rep' and n[4] == '?' and n[5] and starts_with_dot(n[1]):
            return True         # X?? is parsed as the alternation (|X)
        if k in ('grp', 'rep'): return first(n[1])
        if k == 'alt':
            return any(starts_with_dot(c) for c in n[1][1:]) or any(first(c) for c in n[1])
        if k == 'seq':
            for c in n[1]:
                if first(c): return True
                if not nullable_ast(c): return False
        return False
    return first(ast)
