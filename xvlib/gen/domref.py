"""Reference DOM Level 2/3 Core model (+ Traversal-Range, see section "views") and script generator.

The model is written from the W3C DOM Level 3 Core / DOM Level 2 Traversal-Range text, not from the
Xerces sources.  Where the W3C text leaves a choice to the implementation (which node a renameNode
returns, which node receives replaceWholeText, release() semantics, attribute map mixing of Level 1 and
namespace-aware methods) the model follows the repository's documented behaviour; every such point is
listed in ASSUMPTIONS.  Where the W3C text is explicit and Xerces is known to deviate, the deviation is a
*quirk*: the model implements both behaviours, the checker first tries the W3C one and reports a narrowly
keyed violation when only the quirk explains what the real library did (then continues with the quirk
so that the remainder of the script is still compared).

Strings are python str whose characters are UTF-16 code units (supplementary characters are kept as two
surrogate code points) because DOM offsets count 16-bit units.
"""
import copy, re, zlib

ELEMENT, ATTR, TEXT, CDATA, ENTREF, ENTITY, PI, COMMENT, DOC, DOCTYPE, FRAG, NOTATION = range(1, 13)
TYPE_NAMES = {1: 'element', 2: 'attr', 3: 'text', 4: 'cdata', 5: 'entref', 6: 'entity', 7: 'pi', 8: 'comment',
              9: 'document', 10: 'doctype', 11: 'fragment', 12: 'notation'}

INDEX_SIZE, HIERARCHY, WRONG_DOC, INVALID_CHAR, NO_MOD, NOT_FOUND, NOT_SUPPORTED, INUSE, INVALID_STATE = 1, 3, 4, 5, 7, 8, 9, 10, 11
NAMESPACE_ERR, INVALID_ACCESS = 14, 15
BAD_BOUNDARYPOINTS, INVALID_NODE_TYPE = 111, 112

XML_NS = 'http://www.w3.org/XML/1998/namespace'
XMLNS_NS = 'http://www.w3.org/2000/xmlns/'

ASSUMPTIONS = [
    'release() follows doc/program-dom.xml: INVALID_ACCESS_ERR for a node that has a parent/owner element, otherwise the node, its '
    'descendants and attributes are gone (handles retired); removeAttribute(NS), Attr.setValue and replaceWholeText release the nodes they drop',
    'adoptNode: a node of another document yields null and changes nothing (Xerces cannot move storage between documents); for a node of '
    'the same document only the tree effect is compared, not the returned pointer (Xerces always returns null)',
    'renameNode returns the same node when the namespace is null/empty or the node was created namespace-aware, otherwise a new node that '
    'takes over children, attributes and user data (DOM L3 allows either)',
    'replaceWholeText: the first logically-adjacent text node receives the text (DOM L3 lets the implementation choose the recipient)',
    'replaceChild(x, x), insertBefore(x, x) are implementation dependent in DOM L3: executed under sanitizers and invariants, model comparison stops',
    'a Text node consisting of white space only is accepted as a child of a Document (DOMDocumentImpl::isKidOK extension)',
    'namespace-aware attribute lookups also find Level-1 attributes whose nodeName equals the local name when the namespace is null '
    '(DOMAttrMapImpl::findNamePoint comment); scripts that would put two attributes with the same nodeName into one element stop the comparison',
    'cloneNode/importNode(element) keep the user-determined ID flag of attributes; renameNode / adoptNode of an attribute that belongs to an '
    'element clear it (not specified by DOM L3)',
    'an empty DocumentFragment given to insertBefore/appendChild of a node that cannot have children: either HIERARCHY_REQUEST_ERR or no effect',
    'compareDocumentPosition of disconnected nodes / two attributes of one element: only the DISCONNECTED/IMPLEMENTATION_SPECIFIC bits and '
    'the presence of exactly one of PRECEDING/FOLLOWING are compared',
    'user-data handler calls are compared as a multiset of (operation, key, data, source node); dst is not compared',
    'names are drawn from an alphabet whose XML 1.0 fourth-edition Name classification is unambiguous',
]


# ---------------------------------------------------------------------------------------------------
#  strings
# ---------------------------------------------------------------------------------------------------
_plain_re = re.compile(r'[\x20-\x24\x26-\x7e]*')


def esc(s):
    """mirror of xv::esc (drivers/xvdrive.cpp): python str of UTF-16 code units -> escaped text of the log"""
    if s is None:
        return '~'
    if _plain_re.fullmatch(s):
        return s
    out = []
    i = 0
    n = len(s)
    while i < n:
        c = ord(s[i])
        if 0xD800 <= c < 0xDC00 and i + 1 < n and 0xDC00 <= ord(s[i + 1]) < 0xE000:
            out.append(chr(0x10000 + ((c - 0xD800) << 10) + (ord(s[i + 1]) - 0xDC00)))
            i += 2
            continue
        if 0xD800 <= c < 0xE000 or c == 0xFFFE or c == 0xFFFF:
            out.append('%%u%04X' % c)
        elif c < 0x20 or c == 0x25 or c == 0x7f:
            out.append('%%%02X' % c)
        else:
            out.append(s[i])
        i += 1
    return ''.join(out)


def to_units(s):
    """str -> str of UTF-16 code units (a JSON round trip joins surrogate pairs into one code point: split them again)"""
    if s is None or all(ord(ch) < 0x10000 for ch in s):
        return s
    out = []
    for ch in s:
        c = ord(ch)
        if c >= 0x10000:
            c -= 0x10000
            out.append(chr(0xD800 + (c >> 10)))
            out.append(chr(0xDC00 + (c & 0x3FF)))
        else:
            out.append(ch)
    return ''.join(out)


def enc_tok(s):
    """script token for a string operand (driver: Interp::str)"""
    if s is None:
        return '~'
    if s == '':
        return '%'
    b = s.encode('utf-8', 'surrogatepass')
    out = []
    for c in b:
        if c < 0x21 or c in (0x25, 0x7e, 0x7f) or c >= 0x80:
            out.append('%%%02X' % c)
        else:
            out.append(chr(c))
    return ''.join(out)


_START = set('ABCDEFGHIJKLMNOPQRSTUVWXYZabcdefghijklmnopqrstuvwxyz_:' + 'éÉ中α')
_NAMECH = _START | set('0123456789.-' + '̀·')
_KNOWN_BAD = set(' <>&!"\'/=×\t\n,;()[]{}@#$^*+|\\?~`')


def name_class(s):
    """True: XML 1.0 Name, False: not a Name, None: contains a character outside the classified alphabet"""
    if s is None or s == '':
        return False
    for ch in s:
        if ch not in _NAMECH and ch not in _KNOWN_BAD:
            return None
    if s[0] not in _START:
        return False
    for ch in s[1:]:
        if ch not in _NAMECH:
            return False
    return True


def is_ncname(s):
    return name_class(s) is True and ':' not in s


def all_ws(s):
    return all(ch in ' \t\r\n' for ch in s)


# ---------------------------------------------------------------------------------------------------
#  nodes
# ---------------------------------------------------------------------------------------------------
class Node:
    __slots__ = ('t', 'doc', 'parent', 'kids', 'name', 'ns', 'prefix', 'local', 'data', 'attrs', 'owner', 'h', 'ro',
                 'spec', 'isid', 'alive', 'ud', 'l2', 'serial', 'origin', 'mapdirty', 'iddirty')

    def __init__(self, t, doc, name=None, data=None):
        self.t = t
        self.doc = doc          # owning document node (None for a document)
        self.parent = None
        self.kids = []
        self.name = name
        self.ns = self.prefix = self.local = None
        self.data = data
        self.attrs = [] if t == ELEMENT else None
        self.owner = None       # owner element of an attribute
        self.h = None
        self.ro = False
        self.spec = True
        self.isid = False
        self.alive = True
        self.ud = None          # key -> (value, has_handler)
        self.l2 = False         # created by a namespace-aware method
        self.serial = 0
        self.origin = 'created' # created | cloned | imported | split | implicit | renamed
        self.mapdirty = False   # element: a namespace-aware replacement put a differently NAMED attribute into the slot of the old one
        self.iddirty = False    # attribute: value changed through its children since it was registered as an ID (Xerces hashes by value)

    def docnode(self):
        return self if self.t == DOC else self.doc

    def node_name(self):
        t = self.t
        if t in (ELEMENT, ATTR, ENTREF, PI, DOCTYPE):
            return self.name
        return {TEXT: '#text', CDATA: '#cdata-section', COMMENT: '#comment', DOC: '#document', FRAG: '#document-fragment'}[t]

    def node_value(self):
        t = self.t
        if t in (TEXT, CDATA, COMMENT, PI):
            return self.data
        if t == ATTR:
            return attr_value(self)
        return None

    def tree_parent(self):
        return self.owner if self.t == ATTR else self.parent

    def root(self):
        n = self
        while True:
            p = n.tree_parent()
            if p is None:
                return n
            n = p

    def is_ancestor_or_self_of(self, other):
        n = other
        while n is not None:
            if n is self:
                return True
            n = n.parent
        return False

    def index(self):
        return self.parent.kids.index(self)

    def prev(self):
        if self.parent is None:
            return None
        i = self.index()
        return self.parent.kids[i - 1] if i > 0 else None

    def next(self):
        if self.parent is None:
            return None
        i = self.index()
        return self.parent.kids[i + 1] if i + 1 < len(self.parent.kids) else None

    def __repr__(self):
        return '<%s %s h=%s>' % (TYPE_NAMES[self.t], self.node_name(), self.h)


def attr_value(a):
    out = []

    def rec(n):
        if n.t == TEXT:
            out.append(n.data)
        elif n.t == ENTREF:
            for k in n.kids:
                rec(k)
    for k in a.kids:
        rec(k)
    return ''.join(out)


def subtree(n, attrs=True):
    """pre-order: node, its attributes (with their subtrees), its children"""
    out = []
    st = [n]
    while st:
        x = st.pop()
        out.append(x)
        nxt = []
        if attrs and x.t == ELEMENT:
            nxt.extend(x.attrs)
        nxt.extend(x.kids)
        st.extend(reversed(nxt))
    return out


def attr_sort_key(a):
    return (a.name, a.ns or '')


PARENT_TYPES = (ELEMENT, ATTR, ENTREF, ENTITY, DOC, FRAG)
KID_OK = {
    DOC: {ELEMENT, PI, COMMENT, DOCTYPE},
    FRAG: {ELEMENT, PI, COMMENT, TEXT, CDATA, ENTREF},
    ELEMENT: {ELEMENT, PI, COMMENT, TEXT, CDATA, ENTREF},
    ENTREF: {ELEMENT, PI, COMMENT, TEXT, CDATA, ENTREF},
    ENTITY: {ELEMENT, PI, COMMENT, TEXT, CDATA, ENTREF},
    ATTR: {TEXT, ENTREF},
}


# operations that look an attribute up by nodeName (binary search in DOMAttrMapImpl::findNamePoint)
BY_NAME_OPS = {'setAttr', 'getAttr', 'hasAttr', 'remAttr', 'getAttrNode', 'setAttrNode', 'setId', 'remAttrNode', 'setIdNode', 'rename'}


class Exp:
    """expectation for one operation"""
    __slots__ = ('codes', 'res', 'ud', 'dontcare', 'degrade', 'kills', 'cls', 'quirks', 'ud_dontcare', 'newdocs', 'ud_optional')

    def __init__(self):
        self.codes = None        # None => must succeed; else set of acceptable DOMException codes ('dom:N' / 'range:N')
        self.res = None          # None => not compared; str or set of str
        self.ud = []             # expected user data events
        self.ud_dontcare = False
        self.ud_optional = []    # events that may or may not be delivered (release() of attributes below a released element)
        self.dontcare = False    # implementation dependent: any outcome accepted, comparison stops afterwards
        self.degrade = False
        self.kills = []
        self.cls = ''            # operand class (feature tag, used in keys and coverage)
        self.quirks = []         # names of quirk alternatives applicable to this op in this state


class Undecided(Exception):
    pass


# quirks: W3C-explicit behaviour that Xerces is known (from this work) to deviate from; each is a narrow violation key
ALL_QUIRKS = (
    'setIdAttributeNode-matches-by-name', 'setAttributeNS-prefixed-replaces-node', 'normalize-keeps-empty-text', 'normalize-skips-attr-children', 'move-docelement-raises-hierarchy',
    'setAttributeNodeNS-own-attr-raises-inuse', 'setTextContent-empty-creates-text', 'setAttributeNS-keeps-prefix',
    'rename-no-name-check', 'fragment-partial-insert', 'xmlns-element-accepted', 'xmlns-uri-other-name-accepted',
)


class Model:
    def __init__(self):
        self.H = {}              # handle -> Node
        self.docs = []           # document nodes alive
        self.degraded = False
        self.quirk = set()       # quirks currently forced (checker re-sync)
        self.views = {}
        self.serial = 0
        self.broken = None       # description when the real tree is known to be beyond comparison
        self.listpool = {}       # (id(root), id(document), name) -> (root, document, (how, a, b)) of the FIRST getElementsByTagName(name) /
                                 # getElementsByTagNameNS(null, name) list made for that root (mirror of DOMDocumentImpl::fNodeListPool)
        self.pool_released = {}  # id(document) -> {(name, how)} of pooled lists whose root node has been released since

    # ------------------------------------------------------------------ handles
    def bind(self, h, n):
        if h is None:
            return
        old = self.H.get(h)
        if old is not None and old.h == h:
            old.h = None
        self.H[h] = n
        n.h = h

    def kill(self, n):
        if n.h is not None and self.H.get(n.h) is n:
            del self.H[n.h]
        n.h = None

    def ref(self, n):
        if n is None:
            return 'null'
        return 'n%d' % n.h if n.h is not None else 'anon'

    def result(self, n, want):
        """mirror of Interp::result"""
        if n is None:
            return 'null'
        if n.h is not None:
            return 'n%d' % n.h
        if want is not None:
            self.bind(want, n)
            return 'new:n%d' % want
        return 'anon'

    def live(self):
        return [n for h, n in sorted(self.H.items())]

    def mk(self, t, doc, name=None, data=None):
        n = Node(t, doc, name, data)
        self.serial += 1
        n.serial = self.serial
        return n

    # ------------------------------------------------------------------ structural dump (mirror of Interp::line)
    def dump(self):
        order = []
        wi = {}
        for h in sorted(self.H):
            n = self.H[h]
            if n.parent is not None or (n.t == ATTR and n.owner is not None):
                continue
            st = [n]
            while st:
                x = st.pop()
                wi[id(x)] = len(order)
                order.append(x)
                nxt = []
                if x.t == ELEMENT:
                    nxt.extend(sorted(x.attrs, key=attr_sort_key))
                nxt.extend(x.kids)
                st.extend(reversed(nxt))

        def w(n):
            if n is None:
                return '-'
            i = wi.get(id(n))
            if i is not None:
                return str(i)
            return '?n%d' % n.h if n.h is not None else '??'
        lines = []
        for x in order:
            kids = x.kids
            t = x.t
            if t == ELEMENT:
                at = sorted(x.attrs, key=attr_sort_key)
                extra = 'A%d:%s' % (len(at), ','.join(w(a) for a in at))
            elif t == ATTR:
                extra = 'E%s,S%d,I%d' % (w(x.owner), 1 if x.spec else 0, 1 if x.isid else 0)
            elif t == DOC:
                de = next((k for k in kids if k.t == ELEMENT), None)
                dt = next((k for k in kids if k.t == DOCTYPE), None)
                extra = 'DE%s,DT%s' % (w(de), w(dt))
            else:
                extra = '-'
            if x.parent is not None:
                sib = x.parent.kids
                i = sib.index(x)
                pv = sib[i - 1] if i > 0 else None
                nx = sib[i + 1] if i + 1 < len(sib) else None
            else:
                pv = nx = None
            od = x.doc
            lines.append('D\t%s\t%s\t%d\t%s\t%s\t%s\t%s\t%s\t%s\t%s\t%s\t%s\t%s\t%s\t%d:%s\t%s' % (
                w(x), '-' if x.h is None else x.h, t, esc(x.node_name()), esc(x.node_value()), esc(x.ns), esc(x.prefix), esc(x.local),
                w(x.parent), w(kids[0] if kids else None), w(kids[-1] if kids else None), w(pv), w(nx),
                '~' if od is None else self.ref(od), len(kids), ','.join(w(k) for k in kids), extra))
        return lines

    def dump_hash(self):
        lines = self.dump()
        return zlib.crc32(('\n'.join(lines) + '\n').encode('utf-8') if lines else b''), len(lines), lines

    # ------------------------------------------------------------------ primitive mutations (views hook in here)
    def _detach(self, n):
        p = n.parent
        if p is None:
            return
        if p.t == ATTR:
            p.iddirty = True
        for v in self.views.values():
            v.before_remove(self, n)
        p.kids.remove(n)
        n.parent = None

    def _attach(self, p, n, ref):
        if p.t == ATTR:
            p.iddirty = True
        if ref is None:
            p.kids.append(n)
        else:
            p.kids.insert(p.kids.index(ref), n)
        n.parent = p
        for v in self.views.values():
            v.after_insert(self, n)

    def _set_data(self, n, new, kind, off=0, cnt=0, ins=0):
        """kind: 'replace-all' | 'delete' | 'insert' | 'append' """
        n.data = new
        x = n.parent
        while x is not None:
            if x.t == ATTR:
                x.iddirty = True
            x = x.parent
        for v in self.views.values():
            v.text_changed(self, n, kind, off, cnt, ins)

    def _release_subtree(self, n, exp):
        if any(v.refers_to(n) for v in self.views.values()):
            # the library recycles the storage of released nodes although one of its own Range / iterator / list objects still points
            # into them (e.g. a Range inside an attribute dropped by removeAttribute): nothing after this can be compared
            exp.cls = 'releases-node-referenced-by-view'
        inattr = set()
        for x in subtree(n):
            if self.listpool and x.t == ELEMENT:
                # the pool entry survives the node; the storage of x is handed out again by the next createElement of this document
                for key in [k for k, val in self.listpool.items() if val[0] is x]:
                    val = self.listpool.pop(key)
                    self.pool_released.setdefault(id(val[1]), set()).add((key[2], val[2][0]))
            # attribute nodes of a released element: DOMElementImpl::release() releases them, DOMElementNSImpl::release() does not;
            # doc/program-dom.xml only promises "its associated children": NODE_DELETED for them is optional
            if x is not n and (x.t == ATTR or (x.parent is not None and id(x.parent) in inattr)):
                inattr.add(id(x))
            if x.ud:
                for k, (val, hd) in sorted(x.ud.items()):
                    if hd:
                        (exp.ud_optional if id(x) in inattr else exp.ud).append((3, k, val, 'null'))
            if x.h is not None:
                exp.kills.append(x.h)
            self.kill(x)
            x.alive = False
            x.ud = None

    # ------------------------------------------------------------------ name checks
    def _check_name(self, name):
        c = name_class(name)
        if c is None:
            raise Undecided('name alphabet')
        return c

    def _qname_errors(self, ns, qname, is_attr):
        """set of DOMException codes the W3C text allows for createXxxNS / setAttributeNS / renameNode (empty => legal)"""
        errs = set()
        if ns == '':
            raise Undecided('empty namespace')
        ok = self._check_name(qname)
        if not ok:
            # not an XML Name: INVALID_CHARACTER_ERR; such a string is not a well-formed qualified name either
            errs.add(INVALID_CHAR)
            errs.add(NAMESPACE_ERR)
            return errs
        parts = qname.split(':')
        if len(parts) > 2 or (len(parts) == 2 and (not is_ncname(parts[0]) or not is_ncname(parts[1]))):
            errs.add(NAMESPACE_ERR)
            return errs
        prefix = parts[0] if len(parts) == 2 else None
        if prefix is not None and ns is None:
            errs.add(NAMESPACE_ERR)
        if prefix == 'xml' and ns != XML_NS:
            errs.add(NAMESPACE_ERR)
        if (qname == 'xmlns' or prefix == 'xmlns') and ns != XMLNS_NS:
            if is_attr or 'xmlns-element-accepted' not in self.quirk:
                errs.add(NAMESPACE_ERR)
        if ns == XMLNS_NS and not (qname == 'xmlns' or prefix == 'xmlns'):
            if 'xmlns-uri-other-name-accepted' not in self.quirk:
                errs.add(NAMESPACE_ERR)
        return errs

    def _set_qname(self, n, ns, qname):
        n.name = qname
        if ':' in qname:
            n.prefix, n.local = qname.split(':', 1)
        else:
            n.prefix, n.local = None, qname
        n.ns = ns
        n.l2 = True

    # ------------------------------------------------------------------ legality of insertion
    def _insert_errors(self, p, new, ref, replacing=None):
        errs = set()
        if p.t not in PARENT_TYPES:
            errs.add(HIERARCHY)
            if replacing is not None or (ref is not None):
                pass
        if p.ro:
            errs.add(NO_MOD)
        if new.t == DOC or new.docnode() is not p.docnode():
            # a DocumentType created by DOMImplementation has no owner document yet and may be inserted
            if not (new.t == DOCTYPE and new.doc is None):
                errs.add(WRONG_DOC)
        if new.t == DOC:
            errs.add(HIERARCHY)
        if new.is_ancestor_or_self_of(p):
            errs.add(HIERARCHY)
        allowed = KID_OK.get(p.t, set())
        cand = list(new.kids) if new.t == FRAG else [new]
        for c in cand:
            if c.t not in allowed:
                if p.t == DOC and c.t == TEXT and c.data != '' and all_ws(c.data):
                    continue        # repository extension (ASSUMPTIONS)
                errs.add(HIERARCHY)
        if new.t in (ATTR, ENTITY, NOTATION):
            errs.add(HIERARCHY)
        if p.t == DOC:
            ne = sum(1 for k in p.kids if k.t == ELEMENT and k is not replacing and k not in cand)
            nt = sum(1 for k in p.kids if k.t == DOCTYPE and k is not replacing and k not in cand)
            ne += sum(1 for c in cand if c.t == ELEMENT)
            nt += sum(1 for c in cand if c.t == DOCTYPE)
            if ne > 1 or nt > 1:
                errs.add(HIERARCHY)
        if ref is not None and ref.parent is not p:
            errs.add(NOT_FOUND)
        if new.parent is not None and new.parent.ro:
            errs.add(NO_MOD)
        return errs

    def _do_insert(self, p, new, ref):
        if new.t == FRAG:
            for k in list(new.kids):
                self._detach(k)
                self._attach(p, k, ref)
        else:
            if new.parent is not None:
                self._detach(new)
            if new.t == DOCTYPE and new.doc is None:
                new.doc = p.docnode()
            self._attach(p, new, ref)

    # ------------------------------------------------------------------ operations.  Each returns an Exp and, when the
    #  expectation is success, has already applied the effect.
    def op_newdoc(self, want, ns, qname, dt):
        e = Exp()
        d = self.mk(DOC, None)
        errs = set()
        if qname is None:
            if ns is not None:
                errs.add(NAMESPACE_ERR)
        else:
            errs |= self._qname_errors(ns, qname, False)
        if errs:
            e.codes = errs
            return e
        self.bind(want, d)
        self.docs.append(d)
        if dt:
            t = self.mk(DOCTYPE, d, qname if qname is not None else 'dt')
            self._attach(d, t, None)
        if qname is not None:
            r = self.mk(ELEMENT, d)
            self._set_qname(r, ns, qname)
            self._attach(d, r, None)
        e.res = 'new:n%d' % want
        return e

    def op_bind(self, want, base, how, *a):
        e = Exp()
        r = None
        if how == 'c':
            i = a[0]
            r = base.kids[i] if 0 <= i < len(base.kids) else None
        elif how == 'a':
            r = self._attr_by_name(base, a[0]) if base.t == ELEMENT else None
        elif how == 'ans':
            r = self._attr_by_ns(base, a[0], a[1]) if base.t == ELEMENT else None
        elif how == 'de':
            r = next((k for k in base.kids if k.t == ELEMENT), None)
        elif how == 'dt':
            r = next((k for k in base.kids if k.t == DOCTYPE), None)
        elif how == 'fc':
            r = base.kids[0] if base.kids else None
        e.res = self.result(r, want)
        return e

    def _create(self, want, doc, t, name=None, data=None):
        e = Exp()
        n = self.mk(t, doc, name, data)
        if t == ENTREF:
            n.ro = True
        e.res = self.result(n, want)
        return e, n

    def op_cE(self, want, doc, name):
        if not self._check_name(name):
            e = Exp(); e.codes = {INVALID_CHAR}; e.cls = 'invalid-name'; return e
        return self._create(want, doc, ELEMENT, name)[0]

    def op_cENS(self, want, doc, ns, qname):
        errs = self._qname_errors(ns, qname, False)
        if errs:
            e = Exp(); e.codes = errs; e.cls = 'invalid-qname'
            self._ns_quirks(e, ns, qname, False)
            return e
        e, n = self._create(want, doc, ELEMENT)
        self._set_qname(n, ns, qname)
        return e

    def _ns_quirks(self, e, ns, qname, is_attr):
        if qname and name_class(qname):
            parts = qname.split(':')
            prefix = parts[0] if len(parts) == 2 else None
            if not is_attr and (qname == 'xmlns' or prefix == 'xmlns') and ns != XMLNS_NS and ns is not None:
                e.quirks.append('xmlns-element-accepted')
            if ns == XMLNS_NS and not (qname == 'xmlns' or prefix == 'xmlns'):
                e.quirks.append('xmlns-uri-other-name-accepted')

    def op_cT(self, want, doc, data):
        return self._create(want, doc, TEXT, None, data if data is not None else '')[0]

    def op_cC(self, want, doc, data):
        return self._create(want, doc, COMMENT, None, data if data is not None else '')[0]

    def op_cCD(self, want, doc, data):
        return self._create(want, doc, CDATA, None, data if data is not None else '')[0]

    def op_cPI(self, want, doc, target, data):
        if not self._check_name(target):
            e = Exp(); e.codes = {INVALID_CHAR}; e.cls = 'invalid-name'; return e
        return self._create(want, doc, PI, target, data if data is not None else '')[0]

    def op_cA(self, want, doc, name):
        if not self._check_name(name):
            e = Exp(); e.codes = {INVALID_CHAR}; e.cls = 'invalid-name'; return e
        return self._create(want, doc, ATTR, name)[0]

    def op_cANS(self, want, doc, ns, qname):
        errs = self._qname_errors(ns, qname, True)
        if errs:
            e = Exp(); e.codes = errs; e.cls = 'invalid-qname'
            self._ns_quirks(e, ns, qname, True)
            return e
        e, n = self._create(want, doc, ATTR)
        self._set_qname(n, ns, qname)
        return e

    def op_cDF(self, want, doc):
        return self._create(want, doc, FRAG)[0]

    def op_cER(self, want, doc, name):
        if not self._check_name(name):
            e = Exp(); e.codes = {INVALID_CHAR}; e.cls = 'invalid-name'; return e
        return self._create(want, doc, ENTREF, name)[0]

    # ---- tree surgery
    def _ins_class(self, p, new, ref, errs):
        if new is p:
            return 'insert-into-self'
        if new.is_ancestor_or_self_of(p):
            return 'insert-ancestor'
        if WRONG_DOC in errs:
            return 'foreign-document'
        if NOT_FOUND in errs:
            return 'ref-not-child'
        if NO_MOD in errs:
            return 'read-only'
        if HIERARCHY in errs:
            return 'wrong-type-child'
        return 'fragment' if new.t == FRAG else 'legal'

    def op_ins(self, want, p, new, ref):
        e = Exp()
        if ref is not None and new is ref:
            e.dontcare = True; e.cls = 'insert-before-itself'
            return e
        errs = self._insert_errors(p, new, ref)
        e.cls = self._ins_class(p, new, ref, errs)
        if errs == {HIERARCHY} and new.t == FRAG and not new.kids and p.t not in PARENT_TYPES and new is not p:
            # nothing would be inserted: DOM L3 does not say whether the node type check applies (Xerces: DocumentType accepts it)
            e.codes = {HIERARCHY, 'ok'}
            e.cls = 'empty-fragment-into-leaf'
            return e
        if errs == {HIERARCHY} and p.t == DOC and new.t == FRAG and new is not p and not new.is_ancestor_or_self_of(p) and \
                all(k.t in KID_OK[DOC] for k in new.kids):
            # every child is acceptable on its own, only the "one element / one doctype" rule fails
            e.cls = 'fragment-exceeding-document-limits'
            e.quirks.append('fragment-partial-insert')
            if 'fragment-partial-insert' in self.quirk:
                have_e = any(k.t == ELEMENT for k in p.kids)
                have_t = any(k.t == DOCTYPE for k in p.kids)
                for k in list(new.kids):
                    if (k.t == ELEMENT and have_e) or (k.t == DOCTYPE and have_t):
                        break
                    self._detach(k)
                    self._attach(p, k, ref)
                    have_e = have_e or k.t == ELEMENT
                    have_t = have_t or k.t == DOCTYPE
            e.codes = errs
            return e
        if errs:
            e.codes = errs
            if p.t == DOC and new.t in (ELEMENT, DOCTYPE) and new.parent is p:
                e.quirks.append('move-docelement-raises-hierarchy')
                if 'move-docelement-raises-hierarchy' in self.quirk:
                    e.codes = errs | {HIERARCHY}
            return e
        if p.t == DOC and new.t == ELEMENT and new.parent is p:
            e.cls = 'move-docelement'
            e.quirks.append('move-docelement-raises-hierarchy')
            if 'move-docelement-raises-hierarchy' in self.quirk:
                e.codes = {HIERARCHY}
                return e
        if p.t == DOC and new.t == DOCTYPE and new.parent is p:
            e.cls = 'move-doctype'
            e.quirks.append('move-docelement-raises-hierarchy')
            if 'move-docelement-raises-hierarchy' in self.quirk:
                e.codes = {HIERARCHY}
                return e
        self._do_insert(p, new, ref)
        e.res = self.ref(new)
        return e

    def op_app(self, want, p, new):
        return self.op_ins(want, p, new, None)

    def op_rem(self, want, p, old):
        e = Exp()
        errs = set()
        if p.ro:
            errs.add(NO_MOD)
        if old is None or old.parent is not p:
            errs.add(NOT_FOUND)
        e.cls = 'legal' if not errs else ('read-only' if NO_MOD in errs else 'not-a-child')
        if errs:
            e.codes = errs
            return e
        self._detach(old)
        e.res = self.ref(old)
        return e

    def op_rep(self, want, p, new, old):
        e = Exp()
        if new is old:
            e.dontcare = True; e.cls = 'replace-by-itself'
            return e
        errs = set()
        if old.parent is not p:
            errs.add(NOT_FOUND)
        errs |= self._insert_errors(p, new, None, replacing=old if old.parent is p else None)
        e.cls = self._ins_class(p, new, None, errs) if errs else 'legal'
        if NOT_FOUND in errs and e.cls == 'legal':
            e.cls = 'not-a-child'
        movede = p.t == DOC and new.t in (ELEMENT, DOCTYPE) and new.parent is p
        if movede:
            e.quirks.append('move-docelement-raises-hierarchy')
            if not errs:
                e.cls = 'move-docelement'
        if errs == {HIERARCHY} and p.t == DOC and new.t == FRAG and old.parent is p and all(k.t in KID_OK[DOC] for k in new.kids):
            e.cls = 'fragment-exceeding-document-limits'
            e.quirks.append('fragment-partial-insert')
            if 'fragment-partial-insert' in self.quirk:
                have_e = any(k.t == ELEMENT and k is not old for k in p.kids)
                have_t = any(k.t == DOCTYPE and k is not old for k in p.kids)
                for k in list(new.kids):
                    if (k.t == ELEMENT and have_e) or (k.t == DOCTYPE and have_t):
                        break
                    self._detach(k)
                    self._attach(p, k, old)
                    have_e = have_e or k.t == ELEMENT
                    have_t = have_t or k.t == DOCTYPE
            e.codes = errs
            return e
        if errs:
            e.codes = errs | ({HIERARCHY} if movede and 'move-docelement-raises-hierarchy' in self.quirk else set())
            return e
        if movede and 'move-docelement-raises-hierarchy' in self.quirk:
            e.codes = {HIERARCHY}
            return e
        if new.t == FRAG and old in new.kids:
            raise Undecided('old child inside the fragment')
        nxt = old.next()
        if nxt is new:
            nxt = new.next()
        # DOM: newChild is first removed if already in the tree, then put in place of oldChild
        if new.t != FRAG and new.parent is not None:
            self._detach(new)
        self._do_insert(p, new, old)
        self._detach(old)
        e.res = self.ref(old)
        return e

    def _clone(self, n, deep, exp, doc=None, importing=False, top=True):
        """copy of n owned by doc (default: same document)"""
        d = doc if doc is not None else n.docnode()
        c = self.mk(n.t, d, n.name, n.data)
        c.origin = 'imported' if importing else 'cloned'
        c.ns, c.prefix, c.local, c.l2 = n.ns, n.prefix, n.local, n.l2
        c.ro = n.t == ENTREF
        if n.ud:
            for k, (val, hd) in sorted(n.ud.items()):
                if hd:
                    exp.ud.append((2 if importing else 1, k, val, self.ref(n)))
        if n.t == ATTR:
            c.spec = True
            c.isid = n.isid and not (importing and top)
            for k in n.kids:
                kc = self._clone(k, True, exp, d, importing, False)
                c.kids.append(kc); kc.parent = c
            return c
        if n.t == ELEMENT:
            c.mapdirty = n.mapdirty and not importing
            for a in n.attrs:
                ac = self._clone(a, True, exp, d, importing, False)
                ac.isid = a.isid
                ac.owner = c
                c.attrs.append(ac)
        if n.t == ENTREF and importing:
            return c
        if deep:
            for k in n.kids:
                kc = self._clone(k, True, exp, d, importing, False)
                c.kids.append(kc); kc.parent = c
        return c

    def op_clone(self, want, n, deep):
        e = Exp()
        if n.t in (DOC, DOCTYPE):
            raise Undecided('clone of document / doctype not modelled')
        c = self._clone(n, deep, e)
        e.res = self.result(c, want)
        e.cls = TYPE_NAMES[n.t] + ('-deep' if deep else '-shallow')
        if n.t in (TEXT, CDATA, COMMENT, PI, ENTREF) and n.parent is not None and n.parent.kids[0] is n:
            e.cls = 'leaf-firstchild-source'
        return e

    def op_import(self, want, doc, n, deep):
        e = Exp()
        if n.t in (DOC, DOCTYPE):
            e.codes = {NOT_SUPPORTED}; e.cls = 'unsupported-type'
            return e
        # importNode re-creates every node through the factory methods, which validate names (only a node renamed through
        # the rename-no-name-check deviation can carry an invalid one)
        scope = subtree(n) if deep else ([n] + (list(n.attrs) if n.t == ELEMENT else []))
        if any(x.t in (ELEMENT, ATTR, PI, ENTREF) and not x.l2 and name_class(x.name) is False for x in scope):
            e.codes = {INVALID_CHAR}; e.cls = 'invalid-name-in-source'
            return e
        c = self._clone(n, deep, e, doc, importing=True)
        e.res = self.result(c, want)
        e.cls = TYPE_NAMES[n.t] + ('-same-doc' if n.docnode() is doc else '-foreign')
        return e

    def op_adopt(self, want, doc, n):
        e = Exp()
        e.res = None
        if n.t in (DOC, DOCTYPE):
            # W3C: NOT_SUPPORTED_ERR; Xerces answers null for nodes of another document before looking at the type
            if n.docnode() is not doc or n.t == DOC:
                e.codes = {NOT_SUPPORTED, 'ok'}
            else:
                e.codes = {NOT_SUPPORTED}
            e.cls = 'unsupported-type'
            return e
        if n.docnode() is not doc:
            e.cls = 'foreign-document'
            e.res = 'null'
            return e
        if n.ro or (n.parent is not None and n.parent.ro) or (n.t == ATTR and n.owner is not None and n.owner.ro):
            raise Undecided('adopt of read-only node')
        e.cls = 'same-document'
        if n.t == ATTR:
            if n.owner is not None:
                self._ambiguous_identity(n.owner, n)
                n.owner.attrs.remove(n)
                n.owner = None
                if n.isid:
                    n.isid = False
            n.spec = True
        elif n.parent is not None:
            self._detach(n)
        if n.ud:
            for k, (val, hd) in sorted(n.ud.items()):
                if hd:
                    e.ud.append((5, k, val, self.ref(n)))
        e.res = {'null', self.ref(n)}
        return e

    def op_rename(self, want, doc, n, ns, qname):
        e = Exp()
        errs = set()
        if n.t not in (ELEMENT, ATTR):
            errs.add(NOT_SUPPORTED)
        if n.docnode() is not doc:
            errs.add(WRONG_DOC)
        if n.t == DOC:
            errs.add(WRONG_DOC)      # the document node has no owner document: Xerces answers WRONG_DOCUMENT_ERR, DOM L3 NOT_SUPPORTED_ERR
        if ns is None and not n.l2:
            ok = self._check_name(qname)
            if not ok:
                errs.add(INVALID_CHAR)
                if n.t in (ELEMENT, ATTR) and n.docnode() is doc:
                    e.quirks.append('rename-no-name-check')
        else:
            errs |= self._qname_errors(ns, qname, n.t == ATTR)
            self._ns_quirks(e, ns, qname, n.t == ATTR)
        if errs and not ('rename-no-name-check' in self.quirk and errs == {INVALID_CHAR} and 'rename-no-name-check' in e.quirks):
            e.codes = errs
            e.cls = 'illegal'
            if n.t == ATTR and n.docnode() is doc and n.owner is not None and not (ns is None and not n.l2):
                # DOMAttrImpl/DOMAttrNSImpl::rename take the attribute out of its element before the new name is validated
                e.cls = 'illegal-owned-attr'
            elif n.t in (ELEMENT, ATTR) and n.docnode() is doc and n.l2 and qname is not None:
                # DOMElementNSImpl/DOMAttrNSImpl::setName store the new name before validating it (and an owned attribute
                # has already been taken out of its element): the node is modified although the call fails
                e.cls = 'illegal-ns-aware-node'
            return e
        if n.ro or (n.t == ATTR and n.owner is not None and n.owner.ro) or (n.parent is not None and n.parent.ro):
            raise Undecided('rename of read-only node')
        if n.t == ATTR and n.owner is not None:
            self._ambiguous_identity(n.owner, n)
        events = []
        if n.ud:
            for k, (val, hd) in sorted(n.ud.items()):
                if hd:
                    events.append((4, k, val, self.ref(n)))
        if ns is None and not n.l2:
            # Level-1 node, no namespace: renamed in place, stays a Level-1 node
            e.cls = 'in-place-l1'
            if n.t == ATTR and n.owner is not None:
                el = n.owner
                el.attrs.remove(n); n.owner = None
                n.isid = False          # taken out through removeAttributeNode, which drops the ID registration (not specified by DOM L3)
                n.name = qname
                self._set_attr_node(el, n, False, e)
            else:
                n.name = qname
            e.ud = events
            e.res = self.ref(n)
            return e
        if n.l2:
            e.cls = 'in-place-ns'
            if n.t == ATTR and n.owner is not None:
                el = n.owner
                el.attrs.remove(n); n.owner = None
                n.isid = False
                self._set_qname(n, ns, qname)
                self._set_attr_node(el, n, True, e)
                e.ud_dontcare = True      # DOMAttrNSImpl::rename fires nothing: reported separately by the checker
            else:
                self._set_qname(n, ns, qname)
                if n.t == ATTR:
                    e.ud_dontcare = True
            if not e.ud_dontcare:
                e.ud = events
            else:
                e.ud = events
            e.res = self.ref(n)
            return e
        # Level-1 node renamed into a namespace: a new node takes over
        e.cls = 'new-node'
        new = self.mk(n.t, n.doc)
        new.origin = 'renamed'
        self._set_qname(new, ns, qname)
        new.ud, n.ud = n.ud, None
        if n.t == ELEMENT:
            p, nxt = n.parent, n.next()
            if p is not None:
                self._detach(n)
            for k in list(n.kids):
                self._detach(k)
                self._attach(new, k, None)
            if p is not None:
                self._attach(p, new, nxt)
            for a in list(n.attrs):
                n.attrs.remove(a)
                a.owner = new
                new.attrs.append(a)
        else:
            el = n.owner
            if el is not None:
                el.attrs.remove(n); n.owner = None
            new.isid = False
            if n.isid and el is not None:
                n.isid = False
            for k in list(n.kids):
                self._detach(k)
                self._attach(new, k, None)
            if el is not None:
                self._set_attr_node(el, new, True, e)
        e.res = self.result(new, want)
        e.ud = [(4, k, v, e.res.replace('new:', '')) for (_, k, v, _) in events]
        e.ud_dontcare = True
        return e

    def _normalize(self, n, e, first=True):
        changed = False
        i = 0
        while i < len(n.kids):
            k = n.kids[i]
            if k.t == TEXT:
                if k.data == '' and 'normalize-keeps-empty-text' not in self.quirk and not k.ro:
                    self._detach(k)
                    changed = True
                    continue
                if i + 1 < len(n.kids) and n.kids[i + 1].t == TEXT:
                    nx = n.kids[i + 1]
                    self._set_data(k, k.data + nx.data, 'append')
                    self._detach(nx)
                    changed = True
                    continue
            elif k.t == ELEMENT:
                self._normalize(k, e, False)
                if 'normalize-skips-attr-children' not in self.quirk:
                    for a in k.attrs:
                        self._normalize(a, e, False)
            i += 1
        if first and n.t == ELEMENT and 'normalize-skips-attr-children' not in self.quirk:
            for a in n.attrs:
                self._normalize(a, e, False)
        return changed

    def op_normalize(self, want, n):
        e = Exp()
        if n.t not in PARENT_TYPES:
            e.cls = 'leaf'
            return e
        has_empty = False
        attr_work = False
        for x in subtree(n, attrs=True):
            if x.ro:
                raise Undecided('normalize over read-only nodes')
            if x.t == TEXT and x.data == '' and x.parent is not None and x.parent.t != ATTR:
                has_empty = True
            if x.t == ATTR and x is not n:
                ks = x.kids
                if any(k.t == TEXT and k.data == '' for k in ks) or any(ks[i].t == TEXT and ks[i + 1].t == TEXT for i in range(len(ks) - 1)):
                    attr_work = True
        if n.t == ATTR and any(k.t == TEXT and k.data == '' for k in n.kids):
            has_empty = True
        if has_empty:
            e.quirks.append('normalize-keeps-empty-text')
        if attr_work:
            e.quirks.append('normalize-skips-attr-children')
        e.cls = 'empty-text' if has_empty else ('attr-children' if attr_work else 'plain')
        self._normalize(n, e)
        return e

    # ---- attributes
    def _attr_by_name(self, el, name):
        m = [a for a in el.attrs if a.name == name]
        if len(m) > 1:
            raise Undecided('two attributes with one nodeName')
        return m[0] if m else None

    def _attr_by_ns(self, el, ns, local):
        m = [a for a in el.attrs if a.ns == ns and (a.local == local or (a.local is None and a.name == local))]
        if len(m) > 1:
            raise Undecided('two attributes with one expanded name')
        return m[0] if m else None

    def _set_attr_node(self, el, a, nsaware, e):
        """put attribute node a into el; returns the replaced attribute (detached) or None"""
        old = self._attr_by_ns(el, a.ns, a.local if a.local is not None else a.name) if nsaware else self._attr_by_name(el, a.name)
        if old is a:
            return a
        if old is None:
            # would the new node collide by nodeName with an attribute of a different expanded name?
            clash = [x for x in el.attrs if x.name == a.name]
            if clash:
                raise Undecided('nodeName duplicate in attribute map')
        if not nsaware and a.local is not None and any(x is not old and x.ns == a.ns and (x.local == a.local or (x.local is None and x.name == a.local))
                                                        for x in el.attrs):
            # Level-1 setAttributeNode keyed on nodeName would leave two attributes with one expanded name: namespace-aware lookups of
            # Xerces (removeAttributeNode, setIdAttributeNode, renameNode) then pick the first one (DOM L3 1.3.3: do not mix)
            raise Undecided('expanded-name duplicate in attribute map')
        if old is not None:
            if nsaware and old.name != a.name and len(el.attrs) >= 2:
                # DOMAttrMapImpl::setNamedItemNS stores the new node at the index of the old one although the vector is kept sorted
                # by nodeName for the binary search of the Level-1 methods (observed defect: later lookups by name can miss attributes)
                el.mapdirty = True
            el.attrs.remove(old)
            old.owner = None
        el.attrs.append(a)
        a.owner = el
        return old

    def _attr_set_value(self, a, val, e):
        for k in list(a.kids):
            self._detach(k)
            self._release_subtree(k, e)
        if val is not None:
            t = self.mk(TEXT, a.doc, None, val)
            t.origin = 'implicit'
            a.kids.append(t); t.parent = a
        a.spec = True
        a.iddirty = False       # Attr.setValue re-registers an ID attribute under its new value

    def op_setAttr(self, want, el, name, val):
        e = Exp()
        errs = set()
        a = self._attr_by_name(el, name) if name is not None else None
        if not self._check_name(name) and a is None:
            # (an attribute with an invalid name can only exist through the rename-no-name-check deviation: then it is simply updated)
            errs.add(INVALID_CHAR)
        if el.ro:
            errs.add(NO_MOD)
        if errs:
            e.codes = errs; e.cls = 'illegal'
            return e
        e.cls = 'existing' if a else 'new'
        if a is None:
            a = self.mk(ATTR, el.doc, name)
            a.origin = 'implicit'
            self._set_attr_node(el, a, False, e)
        if a.ro:
            raise Undecided('read-only attribute')
        self._attr_set_value(a, val if val is not None else None, e)
        return e

    def op_getAttr(self, want, el, name):
        e = Exp()
        a = self._attr_by_name(el, name)
        e.res = 's:' + esc(attr_value(a) if a else '')
        return e

    def op_hasAttr(self, want, el, name):
        e = Exp()
        e.res = 'true' if self._attr_by_name(el, name) else 'false'
        return e

    def _remove_attr(self, el, a, e, release):
        el.attrs.remove(a)
        a.owner = None
        if a.isid:
            a.isid = False
        if release:
            self._release_subtree(a, e)

    def op_remAttr(self, want, el, name):
        e = Exp()
        if el.ro:
            e.codes = {NO_MOD}; e.cls = 'read-only'
            return e
        a = self._attr_by_name(el, name)
        e.cls = 'present' if a else 'absent'
        if a is not None:
            self._remove_attr(el, a, e, True)
        return e

    def op_setAttrNS(self, want, el, ns, qname, val):
        e = Exp()
        errs = self._qname_errors(ns, qname, True)
        if el.ro:
            errs.add(NO_MOD)
        if errs:
            e.codes = errs; e.cls = 'illegal'
            self._ns_quirks(e, ns, qname, True)
            return e
        local = qname.split(':', 1)[1] if ':' in qname else qname
        prefix = qname.split(':', 1)[0] if ':' in qname else None
        a = self._attr_by_ns(el, ns, local)
        e.cls = 'existing' if a else 'new'
        if a is None:
            a = self.mk(ATTR, el.doc)
            a.origin = 'implicit'
            self._set_qname(a, ns, qname)
            self._set_attr_node(el, a, True, e)
        else:
            if not a.l2:
                raise Undecided('namespace-aware update of a Level-1 attribute')
            if a.isid:
                raise Undecided('namespace-aware update of an ID attribute')
            if prefix is not None:
                # W3C: the existing Attr node stays, its prefix and value change.  Xerces looks the attribute up under
                # ":local" (DOMElementImpl::setAttributeNS, qualifiedName+index), misses it, and puts a new node in its place.
                e.cls = 'existing-prefixed-qname'
                e.quirks.append('setAttributeNS-prefixed-replaces-node')
                if 'setAttributeNS-prefixed-replaces-node' in self.quirk:
                    b = self.mk(ATTR, el.doc)
                    b.origin = 'implicit'
                    self._set_qname(b, ns, qname)
                    if a.name != qname and len(el.attrs) >= 2:
                        el.mapdirty = True
                    el.attrs.remove(a); a.owner = None
                    clash = [x for x in el.attrs if x.name == qname]
                    if clash:
                        raise Undecided('nodeName duplicate in attribute map')
                    el.attrs.append(b); b.owner = el
                    a = b
            if a.prefix != prefix and a.owner is el and not ('setAttributeNS-prefixed-replaces-node' in self.quirk and prefix is not None):
                if prefix is None:
                    e.cls = 'existing-other-prefix'
                    e.quirks.append('setAttributeNS-keeps-prefix')
                if 'setAttributeNS-keeps-prefix' not in self.quirk or prefix is not None:
                    clash = [x for x in el.attrs if x is not a and x.name == qname]
                    if clash:
                        raise Undecided('nodeName duplicate in attribute map')
                    a.prefix = prefix
                    a.name = qname
        self._attr_set_value(a, val, e)
        return e

    def op_getAttrNS(self, want, el, ns, local):
        e = Exp()
        a = self._attr_by_ns(el, ns, local)
        e.res = 's:' + esc(attr_value(a) if a else '')
        return e

    def op_hasAttrNS(self, want, el, ns, local):
        e = Exp()
        e.res = 'true' if self._attr_by_ns(el, ns, local) else 'false'
        return e

    def op_remAttrNS(self, want, el, ns, local):
        e = Exp()
        if el.ro:
            e.codes = {NO_MOD}; e.cls = 'read-only'
            return e
        a = self._attr_by_ns(el, ns, local)
        e.cls = 'present' if a else 'absent'
        if a is not None:
            if a.isid:
                e.cls = 'present-id'
            self._remove_attr(el, a, e, True)
        return e

    def op_getAttrNode(self, want, el, name):
        e = Exp()
        e.res = self.result(self._attr_by_name(el, name), want)
        return e

    def op_getAttrNodeNS(self, want, el, ns, local):
        e = Exp()
        e.res = self.result(self._attr_by_ns(el, ns, local), want)
        return e

    def _op_setAttrNode(self, want, el, a, nsaware):
        e = Exp()
        if nsaware and not a.l2:
            # DOM L3 1.3.3: mixing Level-1 nodes with namespace-aware methods is undefined (Xerces matches null == null local names)
            raise Undecided('Level-1 attribute node given to setAttributeNodeNS')
        errs = set()
        if el.ro:
            errs.add(NO_MOD)
        if a.docnode() is not el.docnode():
            errs.add(WRONG_DOC)
        if a.owner is not None and a.owner is not el:
            errs.add(INUSE)
        if errs:
            e.codes = errs
            e.cls = 'in-use' if INUSE in errs else ('foreign-document' if WRONG_DOC in errs else 'read-only')
            return e
        if a.owner is el:
            e.cls = 'own-attribute-ns' if nsaware else 'own-attribute'
            if nsaware:
                e.quirks.append('setAttributeNodeNS-own-attr-raises-inuse')
                if 'setAttributeNodeNS-own-attr-raises-inuse' in self.quirk:
                    e.codes = {INUSE}
                    return e
            # replacing an attribute node by itself has no effect
            e.res = None
            return e
        old = self._set_attr_node(el, a, nsaware, e)
        e.cls = 'replace' if old is not None else 'new'
        if old is not None and old.isid:
            raise Undecided('replacing an ID attribute node')
        e.res = self.result(old, want)
        return e

    def op_setAttrNode(self, want, el, a):
        return self._op_setAttrNode(want, el, a, False)

    def op_setAttrNodeNS(self, want, el, a):
        return self._op_setAttrNode(want, el, a, True)

    def _ambiguous_identity(self, el, a):
        """Xerces finds an attribute NODE through its (expanded) name; with two attributes of one name in the map the wrong one is hit"""
        if el is None or el.t != ELEMENT:
            return
        if a.local is not None:
            n = sum(1 for x in el.attrs if x.ns == a.ns and (x.local == a.local or (x.local is None and x.name == a.local)))
        else:
            n = sum(1 for x in el.attrs if x.name == a.name)
        if n > 1:
            raise Undecided('two attributes with one name in the element')

    def op_remAttrNode(self, want, el, a):
        e = Exp()
        self._ambiguous_identity(el, a)
        errs = set()
        if el.ro:
            errs.add(NO_MOD)
        if a.owner is not el:
            errs.add(NOT_FOUND)
        if errs:
            e.codes = errs; e.cls = 'not-an-attribute' if NOT_FOUND in errs else 'read-only'
            return e
        self._remove_attr(el, a, e, False)
        e.cls = 'legal'
        e.res = self.ref(a)
        return e

    def _set_id(self, e, el, a, flag):
        errs = set()
        if el.ro:
            errs.add(NO_MOD)
        if a is None:
            errs.add(NOT_FOUND)
        if errs:
            e.codes = errs; e.cls = 'illegal'
            return e
        if flag and not a.isid:
            a.iddirty = False
        a.isid = bool(flag)
        e.cls = 'set' if flag else 'clear'
        return e

    def op_setId(self, want, el, name, flag):
        return self._set_id(Exp(), el, self._attr_by_name(el, name), flag)

    def op_setIdNS(self, want, el, ns, local, flag):
        return self._set_id(Exp(), el, self._attr_by_ns(el, ns, local), flag)

    def op_setIdNode(self, want, el, a, flag):
        e = Exp()
        self._ambiguous_identity(el, a)
        if a.owner is not el and not el.ro:
            # W3C: NOT_FOUND_ERR.  DOMElementImpl::setIdAttributeNode looks the attribute up by NAME and flags whatever it finds.
            b = self._attr_by_name(el, a.name) if a.local is None else self._attr_by_ns(el, a.ns, a.local)
            if b is not None:
                e.quirks.append('setIdAttributeNode-matches-by-name')
                e.cls = 'foreign-attr-same-name'
                if 'setIdAttributeNode-matches-by-name' in self.quirk:
                    b.isid = bool(flag)
                    return e
                e.codes = {NOT_FOUND}
                return e
        return self._set_id(e, el, a if a.owner is el else None, flag)

    # ---- character data
    def _cd_guard(self, n, e):
        if n.ro:
            e.codes = {NO_MOD}; e.cls = 'read-only'
            return True
        return False

    def op_appendData(self, want, n, s):
        e = Exp()
        if self._cd_guard(n, e):
            return e
        self._set_data(n, n.data + (s or ''), 'append')
        return e

    def op_insertData(self, want, n, off, s):
        e = Exp()
        errs = set()
        if n.ro:
            errs.add(NO_MOD)
        if off > len(n.data):
            errs.add(INDEX_SIZE)
        if errs:
            e.codes = errs; e.cls = 'offset-out-of-range' if INDEX_SIZE in errs else 'read-only'
            return e
        s = s or ''
        e.cls = 'at-end' if off == len(n.data) else ('at-start' if off == 0 else 'inside')
        self._set_data(n, n.data[:off] + s + n.data[off:], 'insert', off, 0, len(s))
        return e

    def op_deleteData(self, want, n, off, cnt):
        e = Exp()
        errs = set()
        if n.ro:
            errs.add(NO_MOD)
        if off > len(n.data):
            errs.add(INDEX_SIZE)
        if errs:
            e.codes = errs; e.cls = 'offset-out-of-range' if INDEX_SIZE in errs else 'read-only'
            return e
        e.cls = 'count-beyond-end' if off + cnt > len(n.data) else 'inside'
        cnt = min(cnt, len(n.data) - off)
        self._set_data(n, n.data[:off] + n.data[off + cnt:], 'delete', off, cnt, 0)
        return e

    def op_replaceData(self, want, n, off, cnt, s):
        e = Exp()
        errs = set()
        if n.ro:
            errs.add(NO_MOD)
        if off > len(n.data):
            errs.add(INDEX_SIZE)
        if errs:
            e.codes = errs; e.cls = 'offset-out-of-range' if INDEX_SIZE in errs else 'read-only'
            return e
        s = s or ''
        e.cls = 'count-beyond-end' if off + cnt > len(n.data) else 'inside'
        cnt = min(cnt, len(n.data) - off)
        self._set_data(n, n.data[:off] + n.data[off + cnt:], 'delete', off, cnt, 0)
        self._set_data(n, n.data[:off] + s + n.data[off:], 'insert', off, 0, len(s))
        return e

    def op_substringData(self, want, n, off, cnt):
        e = Exp()
        if off > len(n.data):
            e.codes = {INDEX_SIZE}; e.cls = 'offset-out-of-range'
            return e
        e.cls = 'count-beyond-end' if off + cnt > len(n.data) else 'inside'
        if cnt >= 4096 and len(n.data) < 4095:
            e.cls = 'count-huge'
        e.res = 's:' + esc(n.data[off:off + cnt])
        return e

    def op_setData(self, want, n, s):
        e = Exp()
        if self._cd_guard(n, e):
            return e
        self._set_data(n, s or '', 'replace-all')
        return e

    def op_getLength(self, want, n):
        e = Exp()
        e.res = 'i:%d' % len(n.data)
        return e

    def op_setPIData(self, want, n, s):
        e = Exp()
        if self._cd_guard(n, e):
            return e
        self._set_data(n, s or '', 'replace-all')
        return e

    def op_splitText(self, want, n, off):
        e = Exp()
        errs = set()
        if n.ro:
            errs.add(NO_MOD)
        if off > len(n.data):
            errs.add(INDEX_SIZE)
        if n.parent is not None and n.parent.ro:
            errs.add(NO_MOD)
        if not errs and n.parent is not None and n.parent.t == DOC:
            tail = n.data[off:]
            if n.t != TEXT or tail == '' or not all_ws(tail):
                # the second half has to be inserted into the Document, which only takes non-empty white space text
                e.codes = {HIERARCHY}; e.cls = 'under-document'
                return e
        if errs:
            e.codes = errs; e.cls = 'offset-out-of-range' if INDEX_SIZE in errs else 'read-only'
            return e
        new = self.mk(n.t, n.doc, None, n.data[off:])
        new.origin = 'split'
        p = n.parent
        e.cls = ('attached' if p is not None else 'detached') + ('-at-end' if off == len(n.data) else ('-at-start' if off == 0 else ''))
        if p is not None:
            self._attach(p, new, n.next())
        n.data = n.data[:off]
        for v in self.views.values():
            v.text_split(self, n, new, off)
        e.res = self.result(new, want)
        return e

    def _logical_text_run(self, n):
        """logically-adjacent text nodes of n (Text/CDATA without entity references in between), within one parent"""
        if n.parent is None:
            return [n]
        sib = n.parent.kids
        i = sib.index(n)
        a = i
        while a > 0 and sib[a - 1].t in (TEXT, CDATA):
            a -= 1
        b = i
        while b + 1 < len(sib) and sib[b + 1].t in (TEXT, CDATA):
            b += 1
        # entity references next to the run make the W3C algorithm look inside them: not modelled
        if (a > 0 and sib[a - 1].t == ENTREF) or (b + 1 < len(sib) and sib[b + 1].t == ENTREF):
            raise Undecided('entity reference next to text run')
        return sib[a:b + 1]

    def _run_after_container_text(self, run):
        """DOMTextImpl::getWholeText / replaceWholeText walk with TreeWalker::previousNode/nextNode and only stop at the START of an
        element, comment or PI: they do not notice LEAVING an element.  Hence text at the end of a preceding sibling element, or text
        following the parent element, is treated as logically adjacent (observed defect, notes/C13.md).  True when this run is exposed."""
        p = run[0].prev()
        if p is not None and p.t in (ELEMENT, ENTREF) and p.kids:
            return True
        if run[-1].next() is None:
            node = run[-1].parent
            while node is not None and node.parent is not None and node.parent.t != DOC:
                nx = node.next()
                if nx is None:
                    node = node.parent
                    continue
                return nx.t in (TEXT, CDATA, ENTREF)
        return False

    def op_wholeText(self, want, n):
        e = Exp()
        if not self._under_docelement(n):
            raise Undecided('wholeText outside the document element')
        run = self._logical_text_run(n)
        e.cls = 'after-element-ending-in-text' if self._run_after_container_text(run) else 'plain'
        e.res = 's:' + esc(''.join(x.data for x in run))
        return e

    def _under_docelement(self, n):
        r = n
        while r.parent is not None:
            r = r.parent
            if r.t == ELEMENT and r.parent is not None and r.parent.t == DOC:
                return True
        return False

    def op_replaceWholeText(self, want, n, s):
        e = Exp()
        if not self._under_docelement(n) or n.parent.t != ELEMENT:
            raise Undecided('replaceWholeText outside the document element')
        run = self._logical_text_run(n)
        if any(x.ro for x in run) or n.parent.ro:
            raise Undecided('read-only text run')
        s = s or ''
        e.cls = 'empty' if s == '' else ('single' if len(run) == 1 else 'run')
        if self._run_after_container_text(run):
            e.cls = 'after-element-ending-in-text'
        keep = None
        if s != '':
            keep = run[0]
            self._set_data(keep, s, 'replace-all')
        for x in run:
            if x is keep:
                continue
            self._detach(x)
            self._release_subtree(x, e)
        e.res = self.result(keep, want) if keep is not None else 'null'
        return e

    def op_setValue(self, want, n, s):
        e = Exp()
        t = n.t
        if t in (TEXT, CDATA, COMMENT, PI):
            if self._cd_guard(n, e):
                return e
            self._set_data(n, s or '', 'replace-all')
            e.cls = 'chardata'
        elif t == ATTR:
            if n.ro:
                e.codes = {NO_MOD}; return e
            if n.isid:
                raise Undecided('value of an ID attribute')
            self._attr_set_value(n, s, e)
            e.cls = 'attr'
        else:
            e.cls = 'no-effect'
        return e

    def op_setTC(self, want, n, s):
        e = Exp()
        t = n.t
        if t in (ELEMENT, FRAG, ENTREF, ENTITY):
            if n.ro:
                e.codes = {NO_MOD}; e.cls = 'read-only'
                return e
            e.cls = 'container'
            for k in list(n.kids):
                self._detach(k)
            if s is not None and (s != '' or 'setTextContent-empty-creates-text' in self.quirk):
                x = self.mk(TEXT, n.docnode(), None, s)
                self._attach(n, x, None)
            if s == '':
                e.quirks.append('setTextContent-empty-creates-text')
                e.cls = 'container-empty-string'
        elif t in (TEXT, CDATA, COMMENT, PI, ATTR):
            return self.op_setValue(want, n, s)
        else:
            e.cls = 'no-effect'
        return e

    def _text_content(self, n):
        t = n.t
        if t in (TEXT, CDATA, COMMENT, PI):
            return n.data
        if t == ATTR:
            return attr_value(n)
        if t in (ELEMENT, FRAG, ENTREF, ENTITY):
            return ''.join(self._text_content(k) for k in n.kids if k.t not in (COMMENT, PI))
        return None

    def op_getTC(self, want, n):
        e = Exp()
        v = self._text_content(n)
        if v is None:
            # Xerces returns an empty string where DOM L3 says null (document, doctype): accept both
            e.res = {'s:~', 's:'}
        else:
            e.res = 's:' + esc(v)
        return e

    # ---- user data
    def op_setUD(self, want, n, key, val, handler):
        e = Exp()
        old = (n.ud or {}).get(key, (0, False))[0]
        if val:
            if n.ud is None:
                n.ud = {}
            n.ud[key] = (val, bool(handler))
        elif n.ud and key in n.ud:
            del n.ud[key]
        e.res = 'i:%d' % old
        return e

    def op_getUD(self, want, n, key):
        e = Exp()
        e.res = 'i:%d' % (n.ud or {}).get(key, (0, False))[0]
        return e

    # ---- queries
    def _equal(self, a, b):
        if a is b:
            return True
        if a.t != b.t or a.node_name() != b.node_name() or a.local != b.local or a.ns != b.ns or a.prefix != b.prefix:
            return False
        if a.node_value() != b.node_value():
            return False
        if a.t == ELEMENT:
            if len(a.attrs) != len(b.attrs):
                return False
            for x in a.attrs:
                y = self._attr_by_name(b, x.name) if x.local is None else self._attr_by_ns(b, x.ns, x.local)
                if y is None or not self._equal(x, y):
                    return False
        if len(a.kids) != len(b.kids):
            return False
        return all(self._equal(x, y) for x, y in zip(a.kids, b.kids))

    def op_eq(self, want, a, b):
        e = Exp()
        e.res = 'true' if self._equal(a, b) else 'false'
        return e

    def op_same(self, want, a, b):
        e = Exp()
        e.res = 'true' if a is b else 'false'
        return e

    def op_cmp(self, want, a, b):
        """a.compareDocumentPosition(b): position of b relative to a"""
        e = Exp()
        if a is b:
            e.res = 'i:0'
            return e

        def chain(n):
            c = [n]
            while True:
                p = c[-1].tree_parent()
                if p is None:
                    return c
                c.append(p)
        ca, cb = chain(a), chain(b)
        if b in ca:
            e.res = 'i:10'; e.cls = 'contains'
            return e
        if a in cb:
            e.res = 'i:20'; e.cls = 'contained'
            return e
        if ca[-1] is not cb[-1]:
            e.res = {'i:35', 'i:37'}; e.cls = 'disconnected'
            return e
        ca.reverse(); cb.reverse()
        i = 0
        while ca[i] is cb[i]:
            i += 1
        ma, mb = ca[i], cb[i]          # determining nodes under the common container
        if ma.t != ATTR and mb.t != ATTR:
            sib = ma.parent.kids
            e.res = 'i:4' if sib.index(ma) < sib.index(mb) else 'i:2'
            e.cls = 'siblings'
        elif ma.t == ATTR and mb.t != ATTR:
            e.res = 'i:4'; e.cls = 'attr-vs-child'
        elif ma.t != ATTR and mb.t == ATTR:
            e.res = 'i:2'; e.cls = 'attr-vs-child'
        else:
            e.res = {'i:34', 'i:36'}; e.cls = 'two-attrs'
        return e

    def op_getById(self, want, doc, idv):
        e = Exp()
        cands = []
        for n in self.all_nodes_of(doc):
            if n.t == ATTR and n.isid and attr_value(n) == idv:
                cands.append(n)
        if any(n.iddirty or any(k.h is not None for k in subtree(n)[1:]) for n in self.all_nodes_of(doc) if n.t == ATTR and n.isid):
            # the value of an ID attribute may have been edited through its Text children behind the ID table's back
            raise Undecided('ID attribute with externally held children')
        if len(cands) == 0:
            e.res = 'null'
        elif len(cands) == 1 and cands[0].owner is not None and cands[0].owner.root() is doc:
            e.res = self.ref(cands[0].owner)
        else:
            raise Undecided('ambiguous or detached ID')
        return e

    def all_nodes_of(self, doc):
        out = []
        seen = set()
        for n in list(self.H.values()):
            if n.docnode() is not doc:
                continue
            r = n.root()
            if id(r) in seen:
                continue
            seen.add(id(r))
            out.extend(subtree(r))
        return out

    def op_release(self, want, n):
        e = Exp()
        if n.t == DOC:
            e.cls = 'document'
            e.ud_dontcare = True
            for x in self.all_nodes_of(n):
                if x.h is not None:
                    e.kills.append(x.h)
                self.kill(x)
                x.alive = False
            for vid, v in list(self.views.items()):
                if v.doc is n:
                    del self.views[vid]
            self.docs.remove(n)
            return e
        if n.parent is not None or (n.t == ATTR and n.owner is not None):
            e.codes = {INVALID_ACCESS}; e.cls = 'owned'
            return e
        if n.t == DOCTYPE:
            raise Undecided('release of a doctype')
        e.cls = 'orphan-' + TYPE_NAMES[n.t]
        for v in self.views.values():
            v.before_release(self, n)
        self._release_subtree(n, e)
        return e

    def op_setPrefix(self, want, n, prefix):
        raise Undecided('setPrefix not modelled')

    def tail_class(self, op):
        """operand class of a resolved op when it belongs to TAIL_ONLY (decided WITHOUT touching the state), else None"""
        name, want, a = op
        try:
            if name == 'rename':
                doc, n, ns, qname = a
                if n.t == ATTR and n.docnode() is doc and n.owner is not None and not (ns is None and not n.l2):
                    try:
                        if self._qname_errors(ns, qname, True):
                            return 'illegal-owned-attr'
                    except Undecided:
                        return None
                if n.t in (ELEMENT, ATTR) and n.docnode() is doc and n.l2 and qname is not None:
                    try:
                        if self._qname_errors(ns, qname, n.t == ATTR):
                            return 'illegal-ns-aware-node'
                    except Undecided:
                        return None
            if name == 'setAttrNode' and a[1].t == ATTR and a[1].owner is a[0] and not a[0].ro:
                return 'own-attribute'
            if name == 'rg' and a[1] in ('selectNode', 'selectNodeContents') and a[2].t == COMMENT:
                return 'range-select-comment'
            if name == 'rg' and a[1] == 'surround':
                v = self.views.get(a[0])
                if v is not None and v.kind == 'R' and not v.detached:
                    try:
                        saved = (v.sc, v.so, v.ec, v.eo)
                        probe = Exp()
                        if not (v.sc is v.ec and v.so == v.eo):
                            new = a[2]
                            rs = v.sc.parent if v.sc.t in (TEXT, CDATA) else v.sc
                            re_ = v.ec.parent if v.ec.t in (TEXT, CDATA) else v.ec
                            if new.t == ELEMENT and new.docnode() is v.doc and rs is re_ and rs is not None and \
                                    (new.is_ancestor_or_self_of(v.sc) or KID_OK.get(rs.t) is None or ELEMENT not in KID_OK[rs.t]):
                                return 'surround-hierarchy-error'
                    except Undecided:
                        return None
            if name in BY_NAME_OPS and a[0].t == ELEMENT and a[0].mapdirty:
                return 'attr-map-out-of-order'
            if name == 'map' and len(a) > 2 and a[1] == 'get':
                # NamedNodeMap.getNamedItem of a live map: the same binary search over the same (mis-ordered) vector
                v = self.views.get(a[0])
                if v is not None and v.kind == 'M' and v.el.mapdirty:
                    return 'attr-map-out-of-order'
            if name == 'rename' and a[1].t == ATTR and not a[1].l2 and a[1].owner is not None and a[1].owner.mapdirty:
                return 'attr-map-out-of-order'
            if name in ('wholeText', 'replaceWholeText'):
                n = a[0]
                if n.parent is not None and self._under_docelement(n):
                    try:
                        if self._run_after_container_text(self._logical_text_run(n)):
                            return 'after-element-ending-in-text'
                    except Undecided:
                        return None
        except (AttributeError, IndexError, TypeError):
            return None
        return None

    # ------------------------------------------------------------------ dispatcher
    def apply(self, op):
        """op = (name, want, args) with args already resolved against this model (Node objects, str, int)"""
        name, want, args = op
        f = getattr(self, 'op_' + name, None)
        if f is None:
            raise Undecided('unknown operation ' + name)
        dirty = (name in BY_NAME_OPS or name == 'map') and self.tail_class(op) == 'attr-map-out-of-order'
        exp = f(want, *args)
        if dirty:
            exp.cls = 'attr-map-out-of-order'
        return exp


# ---------------------------------------------------------------------------------------------------
#  script text <-> operations
# ---------------------------------------------------------------------------------------------------
# signature letters: d document handle, n node handle, N node handle or null, s string (or null), i number, b 0/1, w word
SIG = {
    'newdoc': 'ssb', 'bind': 'nw*', 'cE': 'ds', 'cENS': 'dss', 'cT': 'ds', 'cC': 'ds', 'cCD': 'ds', 'cPI': 'dss', 'cA': 'ds', 'cANS': 'dss',
    'cDF': 'd', 'cER': 'ds', 'ins': 'nnN', 'app': 'nn', 'rem': 'nn', 'rep': 'nnn', 'clone': 'nb', 'import': 'dnb', 'adopt': 'dn',
    'rename': 'dnss', 'normalize': 'n', 'setPrefix': 'ns', 'setAttr': 'nss', 'getAttr': 'ns', 'hasAttr': 'ns', 'remAttr': 'ns',
    'setAttrNS': 'nsss', 'getAttrNS': 'nss', 'hasAttrNS': 'nss', 'remAttrNS': 'nss', 'getAttrNode': 'ns', 'getAttrNodeNS': 'nss',
    'setAttrNode': 'nn', 'setAttrNodeNS': 'nn', 'remAttrNode': 'nn', 'setId': 'nsb', 'setIdNS': 'nssb', 'setIdNode': 'nnb', 'getById': 'ds',
    'appendData': 'ns', 'insertData': 'nis', 'deleteData': 'nii', 'replaceData': 'niis', 'substringData': 'nii', 'setData': 'ns',
    'getLength': 'n', 'setPIData': 'ns', 'splitText': 'ni', 'replaceWholeText': 'ns', 'wholeText': 'n', 'setValue': 'ns', 'setTC': 'ns',
    'getTC': 'n', 'setUD': 'nsib', 'getUD': 'ns', 'eq': 'nn', 'same': 'nn', 'cmp': 'nn', 'release': 'n',
}
MUTATING = {'ins', 'app', 'rem', 'rep', 'adopt', 'rename', 'normalize', 'setAttr', 'remAttr', 'setAttrNS', 'remAttrNS', 'setAttrNode',
            'setAttrNodeNS', 'remAttrNode', 'appendData', 'insertData', 'deleteData', 'replaceData', 'setData', 'setPIData', 'splitText',
            'replaceWholeText', 'setValue', 'setTC', 'release', 'setId', 'setIdNS', 'setIdNode'}


class ScriptOp:
    """an operation in handle form: name, want (int or None), args (ints for handles, str/None, ints for numbers)"""
    __slots__ = ('name', 'want', 'args', 'kills')

    def __init__(self, name, want, args, kills=None):
        self.name, self.want, self.args = name, want, list(args)
        self.kills = list(kills or [])     # handles the library releases when the operation succeeds ("!n<k>" tokens)

    def render(self):
        if self.name == 'kill':
            return 'kill ' + ' '.join('n%d' % h for h in self.args)
        sig = sig_for(self.name, self.args)
        toks = [self.name + ('=n%d' % self.want if self.want is not None else '')]
        for i, a in enumerate(self.args):
            k = sig[i] if i < len(sig) and sig[i] != '*' else ('*' if '*' in sig else '?')
            if k == '*':
                k = 'i' if isinstance(a, int) else ('w' if i == 1 else 's')
            if k in 'dnN':
                toks.append('~' if a is None else 'n%d' % a)
            elif k == 's':
                toks.append(enc_tok(a))
            elif k in 'ib':
                toks.append(str(int(a)))
            elif k == 'v':
                toks.append('v%d' % a)
            else:
                toks.append(str(a))
        for h in self.kills:
            toks.append('!n%d' % h)
        return ' '.join(toks)

    def resolve(self, m):
        """-> (name, want, args with Node objects); raises KeyError when a handle is dead in the model"""
        sig = sig_for(self.name, self.args)
        out = []
        for i, a in enumerate(self.args):
            k = sig[i] if i < len(sig) and sig[i] != '*' else '*'
            if k in 'dn' or (k == 'N' and a is not None):
                out.append(m.H[a])
            else:
                out.append(a)
        return (self.name, self.want, out)

    def to_json(self):
        return [self.name, self.want, self.args, self.kills]

    @staticmethod
    def from_json(j):
        return ScriptOp(j[0], j[1], [to_units(a) if isinstance(a, str) else a for a in j[2]], j[3] if len(j) > 3 else None)


# ---------------------------------------------------------------------------------------------------
#  script generator (generates AGAINST the model: it knows which handles are alive and what they are)
# ---------------------------------------------------------------------------------------------------
L1_NAMES = ['a', 'b', 'c', 'd', 'e', 'id', 'x', 'p:a', 'q:b', 'xml:lang', 'é', '中1', 'a-b', '_u', 'a.b', 'b1', 'cc', 'x2']
BAD_NAMES = ['', '1a', 'a b', 'a<b', '-a', '.a', 'a&', '×', '̀a', None]
NS_GOOD = [(None, 'a'), (None, 'b'), ('urn:u1', 'a'), ('urn:u1', 'p:a'), ('urn:u2', 'p:a'), ('urn:u2', 'q:b'), ('urn:u1', 'c'),
           ('urn:u1', 'q:x'), (XML_NS, 'xml:lang'), ('urn:u2', 'b'), ('urn:u1', 'p:id')]
NS_GOOD_ATTR_ONLY = [(XMLNS_NS, 'xmlns'), (XMLNS_NS, 'xmlns:p')]
NS_BAD = [(None, 'p:a'), ('urn:u1', 'xml:a'), ('urn:u1', 'a:b:c'), ('urn:u1', ':a'), ('urn:u1', 'a:'), ('urn:u1', 'p:1a'),
          ('urn:u1', 'a b'), ('urn:u1', '1a'), ('urn:u1', ''), ('urn:u1', 'p:a<'), ('urn:u1', None)]
NS_BAD_ATTR = [('urn:u1', 'xmlns'), ('urn:u1', 'xmlns:p'), (None, 'xmlns')]
NS_SUSPECT = [('urn:u1', 'xmlns:a'), (XMLNS_NS, 'a'), (XMLNS_NS, 'p:a')]     # W3C: NAMESPACE_ERR; quirk classes
DATA = ['', 'a', 'hello', ' ', '  \n', 'x<y&z', 'é中', 'a\ud83d\ude00b', 'tail', '0123456789', ']]>', 'A' * 40, '\t', 'q\ud83dz']
UD_KEYS = ['k1', 'k2', 'é']

# classes of operands that are only generated as the LAST operation of a script: the real library is known to
# break there (DESIGN section 5) and nothing can be compared afterwards
# ('insert-into-self', 'count-huge' and 'leaf-firstchild-source' were in this set until the defects behind them were repaired in
#  /repo: f2fc716, 0051c70, 9a920c0.  They are ordinary operand classes now and stay pinned in the check's special cases.)
# ('range-select-comment' was on this list until /repo commit f5d60a2 repaired the Comment downcast in DOMRangeImpl)
TAIL_ONLY = {'surround-hierarchy-error', 'releases-node-referenced-by-view', 'attr-map-out-of-order', 'illegal-owned-attr', 'own-attribute', 'illegal-ns-aware-node', 'after-element-ending-in-text'}


# Deviations from the DOM text that the unchanged tree is known to have (notes/C13.md).  The GENERATOR follows them, so that
# the handles and "!n" directives of a script describe what the real library does; the CHECKER always tries the W3C behaviour
# first and reports the deviation.  Remove an entry when the corresponding defect is fixed in /repo.
KNOWN_DEVIATIONS = set(ALL_QUIRKS)
# the same for the views of C14 (notes/C14.md)
VIEW_QUIRKS = ('treewalker-previousNode-one-level', 'treewalker-hidden-node-filter-reject', 'range-selectNode-chardata-selects-contents',
               'range-toString-includes-comment-and-pi-data', 'range-contents-op-resets-offsets-in-partial-text',
               'range-insertNode-readonly-newnode', 'deeplist-pool-shares-tagname-and-null-namespace-lists')
KNOWN_VIEW_DEVIATIONS = set(VIEW_QUIRKS)


class Gen:
    def __init__(self, rng, nops=200, max_docs=3, weights=None, allow_release_doc=True, views=False):
        self.r = rng
        self.nops = nops
        self.max_docs = max_docs
        self.m = Model()
        self.m.quirk = set(KNOWN_DEVIATIONS) | (set(KNOWN_VIEW_DEVIATIONS) if views else set())
        self.ops = []            # ScriptOp (incl. kill pseudo-ops)
        self.next_h = 0
        self.stopped = None
        self.tags = set()
        self.views = views
        self.nreal = 0
        self.next_v = 0

    # ---------------------------------------------------------------- helpers
    def newh(self):
        h = self.next_h
        self.next_h += 1
        return h

    def emit(self, name, want, args, tail=False):
        """apply to the model; keep the op if the model can decide it.  Returns the Exp or None."""
        op = ScriptOp(name, want, args)
        try:
            rop = op.resolve(self.m)
        except KeyError:
            return None
        if not tail and self.m.tail_class(rop) is not None:
            return None          # known-defect operand classes are generated by tail() only
        try:
            exp = self.m.apply(rop)
        except Undecided as u:
            # the model may be half-way through a mutation: end this script here
            self.stopped = 'undecided: %s' % u
            return None
        if exp.cls in TAIL_ONLY and not tail:
            self.stopped = 'tail class %s reached unexpectedly' % exp.cls
            self.ops.append(op)
            op.kills = sorted(set(exp.kills))
            return exp
        self.ops.append(op)
        self.nreal += 1
        self.tags.add(name + ':' + exp.cls)
        op.kills = sorted(set(exp.kills))
        if exp.dontcare or exp.degrade:
            self.stopped = 'implementation-dependent: ' + exp.cls
        return exp

    def live(self, pred=None):
        return [n for n in self.m.H.values() if pred is None or pred(n)]

    def pick(self, pred=None):
        c = self.live(pred)
        return self.r.choice(c) if c else None

    def pick_doc(self):
        return self.r.choice(self.m.docs) if self.m.docs else None

    def data(self):
        r = self.r
        x = r.random()
        if x < 0.01:
            return 'L' * r.choice([4093, 4094, 4095, 4096, 4097])
        if x < 0.03:
            return None
        return r.choice(DATA)

    def l1name(self, bad=0.08):
        if self.r.random() < bad:
            return self.r.choice(BAD_NAMES)
        return self.r.choice(L1_NAMES)

    def nsname(self, attr=False, bad=0.10):
        r = self.r
        x = r.random()
        if x < bad:
            return r.choice(NS_BAD + (NS_BAD_ATTR if attr else []))
        if x < bad + 0.01:
            return r.choice(NS_SUSPECT)
        if attr and x < bad + 0.08:
            return r.choice(NS_GOOD_ATTR_ONLY)
        return r.choice(NS_GOOD)

    # ---------------------------------------------------------------- set-up
    def setup(self):
        r = self.r
        nd = 1 + (r.random() < 0.7) + (r.random() < 0.35)
        nd = min(nd, self.max_docs)
        for i in range(nd):
            h = self.newh()
            x = r.random()
            if x < 0.15:
                self.emit('newdoc', h, [None, None, 0])
            else:
                ns, qn = r.choice(NS_GOOD[:8])
                self.emit('newdoc', h, [ns, qn, 1 if (i == 0 and r.random() < 0.3) else 0])
                self.emit('bind', self.newh(), [h, 'de'])
                if self.m.H[h].kids and self.m.H[h].kids[0].t == DOCTYPE:
                    self.emit('bind', self.newh(), [h, 'dt'])

    # ---------------------------------------------------------------- one random operation
    def step(self):
        r = self.r
        nlive = len(self.m.H)
        w = dict(create=16, insert=24, remove=6, replace=5, clone=3, imp=2, adopt=1, rename=2, normalize=2, attr=16, cdata=12,
                 split=2, rwt=1, value=3, ud=3, query=5, release=2, bind=2, newdoc=0.2)
        if nlive > 45:
            w['create'] = 3; w['release'] = 10; w['clone'] = 1; w['remove'] = 10
        if nlive < 8:
            w['create'] = 40
        if self.views:
            w.update(mkview=4 if len(self.m.views) >= 3 else 25, viewquery=30 if self.m.views else 0, rgset=5 if self.live_views('R') else 0)
            w['query'] = 2; w['newdoc'] = 0; w['ud'] = 1; w['cdata'] = 14; w['split'] = 4; w['normalize'] = 3
        kinds = list(w)
        k = r.choices(kinds, [w[x] for x in kinds])[0]
        if not self.views:
            return getattr(self, 'g_' + k)()
        passive = k in ('query', 'viewquery', 'mkview', 'rgset', 'create', 'ud', 'bind')
        if not passive:
            self._settle_iterators()
            if self.stopped:
                return None
        n0 = self.nreal
        e = getattr(self, 'g_' + k)()
        if not passive and self.nreal > n0 and not self.stopped:
            self.probe_views(limit=r.choice([1, 2, 3]))
        return e

    def g_newdoc(self):
        if len(self.m.docs) >= self.max_docs:
            return None
        h = self.newh()
        ns, qn = self.r.choice(NS_GOOD[:8])
        e = self.emit('newdoc', h, [ns, qn, 0])
        if e is not None and e.codes is None:
            self.emit('bind', self.newh(), [h, 'de'])
        return e

    def g_create(self):
        r = self.r
        d = self.pick_doc()
        if d is None:
            return None
        k = r.choices(['cE', 'cENS', 'cT', 'cC', 'cCD', 'cPI', 'cA', 'cANS', 'cDF', 'cER'], [22, 12, 22, 6, 5, 5, 8, 6, 5, 3])[0]
        h = self.newh()
        if k == 'cE':
            return self.emit(k, h, [d.h, self.l1name()])
        if k == 'cENS':
            ns, qn = self.nsname()
            return self.emit(k, h, [d.h, ns, qn])
        if k in ('cT', 'cC', 'cCD'):
            return self.emit(k, h, [d.h, self.data()])
        if k == 'cPI':
            return self.emit(k, h, [d.h, self.l1name(), self.data()])
        if k == 'cA':
            return self.emit(k, h, [d.h, self.l1name()])
        if k == 'cANS':
            ns, qn = self.nsname(attr=True)
            return self.emit(k, h, [d.h, ns, qn])
        if k == 'cDF':
            return self.emit(k, h, [d.h])
        return self.emit(k, h, [d.h, self.l1name()])

    def _parent_candidate(self):
        r = self.r
        x = r.random()
        if x < 0.80:
            p = self.pick(lambda n: n.t in (ELEMENT, FRAG) or (n.t == DOC and r.random() < 0.5))
        elif x < 0.88:
            p = self.pick(lambda n: n.t in (DOC, ATTR, ENTREF))
        else:
            p = self.pick()
        return p

    def _child_candidate(self, p):
        r = self.r
        x = r.random()
        d = p.docnode()
        if x < 0.70:     # legal looking: same document, allowed type, not an ancestor
            allowed = KID_OK.get(p.t, set())
            c = self.pick(lambda n: n.docnode() is d and n.t in allowed and not n.is_ancestor_or_self_of(p))
            if c is None and FRAG in (p.t,):
                c = None
            if c is not None:
                return c
        if x < 0.76:     # fragment
            c = self.pick(lambda n: n.t == FRAG and n.docnode() is d)
            if c is not None:
                return c
        if x < 0.775:    # the node itself
            return p
        if x < 0.80:     # ancestor (not self)
            anc = []
            a = p.parent
            while a is not None:
                anc.append(a); a = a.parent
            anc = [a for a in anc if a.h is not None]
            if anc:
                return r.choice(anc)
        if x < 0.84:     # foreign document
            c = self.pick(lambda n: n.docnode() is not d and n.t != DOC)
            if c is not None:
                return c
        if x < 0.90:     # wrong type
            c = self.pick(lambda n: n.docnode() is d and n.t not in KID_OK.get(p.t, set()))
            if c is not None:
                return c
        if x < 0.93:     # document node / attribute as a child
            c = self.pick(lambda n: n.t in (DOC, ATTR))
            if c is not None:
                return c
        return self.pick()

    def _ref_candidate(self, p, new):
        r = self.r
        x = r.random()
        if x < 0.25 or not p.kids:
            if x < 0.92 or not self.m.H:
                return None
            return self.pick()
        if x < 0.85:
            kids = [k for k in p.kids if k.h is not None]
            if kids:
                if r.random() < 0.3:
                    return kids[0]
                if r.random() < 0.2:
                    return kids[-1]
                return r.choice(kids)
            return None
        if x < 0.95:    # a node that is not a child
            return self.pick(lambda n: n.parent is not p)
        return None

    def g_insert(self):
        p = self._parent_candidate()
        if p is None:
            return None
        c = self._child_candidate(p)
        if c is None:
            return None
        if p.t == DOC and c.parent is p and c.t in (ELEMENT, DOCTYPE) and self.r.random() < 0.93:
            return None      # moving the document element inside its document: known deviation class, kept rare
        if self.r.random() < 0.45:
            return self.emit('app', None, [p.h, c.h])
        ref = self._ref_candidate(p, c)
        if ref is c and self.r.random() < 0.97:
            return None
        return self.emit('ins', None, [p.h, c.h, ref.h if ref is not None else None])

    def g_remove(self):
        r = self.r
        x = r.random()
        if x < 0.85:
            c = self.pick(lambda n: n.parent is not None and n.parent.h is not None)
            if c is None:
                return None
            if r.random() < 0.35:     # last child / first child preference
                sib = [k for k in c.parent.kids if k.h is not None]
                c = sib[-1] if r.random() < 0.6 else sib[0]
            return self.emit('rem', None, [c.parent.h, c.h])
        p = self.pick()
        c = self.pick()
        if p is None or c is None:
            return None
        return self.emit('rem', None, [p.h, c.h])

    def g_replace(self):
        r = self.r
        old = self.pick(lambda n: n.parent is not None and n.parent.h is not None)
        if old is None or r.random() < 0.1:
            p, old = self.pick(), self.pick()
            if p is None:
                return None
        else:
            p = old.parent
        new = self._child_candidate(p)
        if new is None:
            return None
        if new is old and r.random() < 0.995:
            return None
        if p.t == DOC and new.parent is p and new.t in (ELEMENT, DOCTYPE) and r.random() < 0.93:
            return None
        return self.emit('rep', None, [p.h, new.h, old.h])

    def g_clone(self):
        n = self.pick(lambda n: n.t not in (DOC, DOCTYPE))
        if n is None:
            return None
        deep = 1 if self.r.random() < 0.6 else 0
        if deep and len(subtree(n)) > 25:
            deep = 0
        e = self.emit('clone', self.newh(), [n.h, deep])
        self._bind_some(e)
        return e

    def _bind_some(self, e):
        """give handles to a few nodes inside a freshly created subtree"""
        if e is None or e.codes is not None or not isinstance(e.res, str) or not e.res.startswith('new:n'):
            return
        h = int(e.res[5:])
        n = self.m.H.get(h)
        if n is None:
            return
        r = self.r
        for _ in range(2):
            if n.kids and r.random() < 0.6:
                i = r.randrange(len(n.kids))
                if n.kids[i].h is None:
                    self.emit('bind', self.newh(), [n.h, 'c', i])
                n = n.kids[i]
            elif n.t == ELEMENT and n.attrs and r.random() < 0.5:
                a = r.choice(n.attrs)
                if a.h is None:
                    try:
                        if a.local is None:
                            self.emit('bind', self.newh(), [n.h, 'a', a.name])
                        else:
                            self.emit('bind', self.newh(), [n.h, 'ans', a.ns, a.local])
                    except Undecided:
                        pass
                break

    def g_imp(self):
        d = self.pick_doc()
        n = self.pick(lambda n: self.r.random() < 0.9 or n.t in (DOC, DOCTYPE))
        if d is None or n is None:
            return None
        deep = 1 if self.r.random() < 0.6 else 0
        if deep and len(subtree(n)) > 25:
            deep = 0
        e = self.emit('import', self.newh(), [d.h, n.h, deep])
        self._bind_some(e)
        return e

    def g_adopt(self):
        d = self.pick_doc()
        n = self.pick()
        if d is None or n is None:
            return None
        return self.emit('adopt', None, [d.h, n.h])

    def g_rename(self):
        r = self.r
        d = self.pick_doc()
        x = r.random()
        if x < 0.85:
            n = self.pick(lambda n: n.t in (ELEMENT, ATTR) and n.docnode() is d)
        else:
            n = self.pick()
        if n is None or d is None:
            return None
        if self.views and n.t == ELEMENT and any(v.kind == 'L' and v.how != 'children' and v.doc is n.docnode() for v in self.m.views.values()):
            # DOMDeepNodeListImpl keeps its cached position across an in-place rename (no change-counter bump): pinned special case of C14
            return None
        if r.random() < 0.5:
            ns, qn = None, self.l1name(bad=0.12)
        else:
            ns, qn = self.nsname(attr=(n.t == ATTR))
        if qn is None:
            qn = ''
        return self.emit('rename', self.newh(), [d.h, n.h, ns, qn])

    def g_normalize(self):
        n = self.pick(lambda n: (n.t in (ELEMENT, DOC, FRAG, ATTR) or self.r.random() < 0.1) and not any(x.ro for x in subtree(n)))
        if n is None:
            return None
        return self.emit('normalize', None, [n.h])

    def _attr_name_for(self, el):
        r = self.r
        if el.t == ELEMENT and el.attrs and r.random() < 0.55:
            return r.choice(el.attrs).name
        return self.l1name(bad=0.06)

    def g_attr(self):
        r = self.r
        el = self.pick(lambda n: n.t == ELEMENT)
        if el is None:
            return None
        k = r.choices(['setAttr', 'getAttr', 'hasAttr', 'remAttr', 'setAttrNS', 'getAttrNS', 'remAttrNS', 'getAttrNode', 'getAttrNodeNS',
                       'setAttrNode', 'setAttrNodeNS', 'remAttrNode', 'setId', 'setIdNode', 'hasAttrNS', 'setIdNS'],
                      [20, 5, 2, 8, 10, 4, 5, 6, 3, 10, 6, 6, 4, 2, 1, 2])[0]
        if k in ('setAttr',):
            return self.emit(k, None, [el.h, self._attr_name_for(el), self.data()])
        if k in ('getAttr', 'hasAttr', 'remAttr'):
            return self.emit(k, None, [el.h, self._attr_name_for(el)])
        if k == 'getAttrNode':
            return self.emit(k, self.newh(), [el.h, self._attr_name_for(el)])
        if k in ('setAttrNS',):
            l2a = [x for x in el.attrs if x.l2 and not x.isid]
            if l2a and r.random() < 0.3:
                a = r.choice(l2a)
                ns, qn = a.ns, (a.name if r.random() < 0.6 else ('q:' + (a.local or a.name)))
            else:
                ns, qn = self.nsname(attr=True)
            if qn is None:
                qn = ''
            return self.emit(k, None, [el.h, ns, qn, self.data()])
        if k in ('getAttrNS', 'remAttrNS', 'getAttrNodeNS', 'hasAttrNS', 'setIdNS'):
            if el.attrs and r.random() < 0.6:
                a = r.choice(el.attrs)
                ns, local = a.ns, (a.local if a.local is not None else a.name)
            else:
                ns, qn = r.choice(NS_GOOD)
                local = qn.split(':')[-1]
            if k == 'getAttrNodeNS':
                return self.emit(k, self.newh(), [el.h, ns, local])
            if k == 'setIdNS':
                return self.emit(k, None, [el.h, ns, local, 1 if r.random() < 0.7 else 0])
            return self.emit(k, None, [el.h, ns, local])
        if k in ('setAttrNode', 'setAttrNodeNS'):
            x = r.random()
            if x < 0.6:
                a = self.pick(lambda n: n.t == ATTR and n.owner is None and n.docnode() is el.docnode())
            elif x < 0.75:
                a = self.pick(lambda n: n.t == ATTR and n.owner is not None and n.owner is not el)
            elif x < 0.85:
                a = self.pick(lambda n: n.t == ATTR and n.owner is el)
            else:
                a = self.pick(lambda n: n.t == ATTR)
            if a is None:
                return None
            if k == 'setAttrNodeNS' and not a.l2:
                k = 'setAttrNode'
            if k == 'setAttrNode' and a.local is not None and any(x is not a and x.ns == a.ns and x.local == a.local and x.name != a.name for x in el.attrs):
                k = 'setAttrNodeNS'      # (the Level-1 call would leave two attributes with one expanded name: not decided)
            return self.emit(k, self.newh(), [el.h, a.h])
        if k == 'remAttrNode':
            a = self.pick(lambda n: n.t == ATTR and (n.owner is el or r.random() < 0.15))
            if a is None:
                return None
            return self.emit(k, None, [el.h, a.h])
        if k == 'setId':
            return self.emit(k, None, [el.h, self._attr_name_for(el), 1 if r.random() < 0.7 else 0])
        if k == 'setIdNode':
            a = self.pick(lambda n: n.t == ATTR and (n.owner is el or r.random() < 0.1))
            if a is None:
                return None
            return self.emit(k, None, [el.h, a.h, 1 if r.random() < 0.7 else 0])
        return None

    def _offset(self, n, beyond=0.12):
        r = self.r
        ln = len(n.data)
        x = r.random()
        if x < beyond:
            return ln + r.choice([1, 2, 100, 1 << 31, (1 << 32) - 1])
        if x < 0.3:
            return 0
        if x < 0.45:
            return ln
        return r.randrange(ln + 1)

    def _count(self, n):
        r = self.r
        x = r.random()
        ln = len(n.data)
        if x < 0.1:
            return 0
        if x < 0.25:
            return ln + r.choice([0, 1, 7, 1000, 4000])
        if x < 0.3:
            return r.choice([(1 << 31), (1 << 32) - 1, 4095])
        return r.randrange(ln + 2)

    def g_cdata(self):
        r = self.r
        n = self.pick(lambda n: n.t in (TEXT, CDATA, COMMENT))
        if n is None:
            return None
        k = r.choices(['appendData', 'insertData', 'deleteData', 'replaceData', 'substringData', 'setData', 'getLength'], [5, 6, 6, 5, 5, 3, 1])[0]
        if k == 'appendData':
            return self.emit(k, None, [n.h, self.data() or ''])
        if k == 'insertData':
            # a null string pointer is not a DOMString: insertData(offset, 0) dereferences it (observation in notes/C13.md)
            return self.emit(k, None, [n.h, self._offset(n), self.data() or ''])
        if k == 'deleteData':
            return self.emit(k, None, [n.h, self._offset(n), self._count(n)])
        if k == 'replaceData':
            return self.emit(k, None, [n.h, self._offset(n), self._count(n), self.data() or ''])
        if k == 'substringData':
            c = self._count(n)
            if self.r.random() < 0.05:
                c = self.r.choice([4096, 5000, 1 << 20])
            return self.emit(k, None, [n.h, self._offset(n), c])
        if k == 'setData':
            return self.emit(k, None, [n.h, self.data()])
        return self.emit(k, None, [n.h])

    def g_split(self):
        n = self.pick(lambda n: n.t in (TEXT, CDATA))
        if n is None:
            return None
        return self.emit('splitText', self.newh(), [n.h, self._offset(n, 0.1)])

    def g_rwt(self):
        n = self.pick(lambda n: n.t in (TEXT, CDATA) and n.parent is not None and n.parent.t == ELEMENT and self.m._under_docelement(n)
                      and not n.ro and not n.parent.ro)
        if n is None:
            return None
        if self.r.random() < 0.3:
            return self.emit('wholeText', None, [n.h])
        return self.emit('replaceWholeText', self.newh(), [n.h, self.data()])

    def g_value(self):
        r = self.r
        n = self.pick()
        if n is None:
            return None
        k = r.choice(['setValue', 'setTC', 'getTC', 'setPIData'])
        if k == 'setPIData':
            n = self.pick(lambda n: n.t == PI)
            if n is None:
                return None
            return self.emit(k, None, [n.h, self.data()])
        if k == 'getTC':
            return self.emit(k, None, [n.h])
        if k == 'setTC' and n.t == DOC:
            return None
        return self.emit(k, None, [n.h, self.data()])

    def g_ud(self):
        r = self.r
        n = self.pick()
        if n is None:
            return None
        if r.random() < 0.25:
            return self.emit('getUD', None, [n.h, r.choice(UD_KEYS)])
        val = 0 if r.random() < 0.15 else r.randrange(1, 1000)
        return self.emit('setUD', None, [n.h, r.choice(UD_KEYS), val, 1 if r.random() < 0.8 else 0])

    def g_query(self):
        r = self.r
        a, b = self.pick(), self.pick()
        if a is None:
            return None
        k = r.choice(['eq', 'eq', 'same', 'cmp', 'cmp'])
        if k == 'eq' and r.random() < 0.5:
            # aim at nodes that could be equal: same type
            b = self.pick(lambda n: n.t == a.t) or b
        if k == 'cmp' and r.random() < 0.6:
            b = self.pick(lambda n: n.root() is a.root()) or b
        return self.emit(k, None, [a.h, b.h])

    def g_release(self):
        r = self.r
        if self.views:
            n = self.pick(lambda n: n.parent is None and n.t not in (DOC, DOCTYPE) and not (n.t == ATTR and n.owner is not None)
                          and not any(v.refers_to(n) for v in self.m.views.values()))
            if n is None:
                return None
            return self.emit('release', None, [n.h])
        x = r.random()
        if x < 0.75:
            n = self.pick(lambda n: n.parent is None and n.t not in (DOC, DOCTYPE) and not (n.t == ATTR and n.owner is not None))
        elif x < 0.97:
            n = self.pick(lambda n: n.t not in (DOC, DOCTYPE))
        else:
            n = self.pick(lambda n: n.t == DOC) if len(self.m.docs) > 1 else None
        if n is None:
            return None
        return self.emit('release', None, [n.h])

    def g_bind(self):
        r = self.r
        n = self.pick(lambda n: (n.kids and any(k.h is None for k in n.kids)))
        if n is None:
            return None
        idx = [i for i, k in enumerate(n.kids) if k.h is None]
        return self.emit('bind', self.newh(), [n.h, 'c', r.choice(idx)])

    # ---------------------------------------------------------------- views (C14)
    def newv(self):
        v = self.next_v
        self.next_v += 1
        return v

    def live_views(self, kind=None):
        return [(vid, v) for vid, v in sorted(self.m.views.items()) if kind is None or v.kind == kind]

    def _settle_iterators(self):
        """An iterator that has never returned a node makes DOMNodeIteratorImpl::removeNode dereference a null pointer on the
        next removeChild anywhere in its document (observed defect, notes/C14.md): step or detach such iterators first."""
        for vid, v in self.live_views('I'):
            if v.ref is None and not v.detached:
                self.emit('it', None, [vid, 'next'])
                if self.stopped:
                    return
                v2 = self.m.views.get(vid)
                if v2 is not None and v2.ref is None and not v2.detached:
                    self.emit('it', None, [vid, 'detach'])

    def g_mkview(self):
        r = self.r
        if len(self.m.views) >= 8:
            # drop one
            vid, v = r.choice(self.live_views())
            if v.kind == 'I':
                return self.emit('it', None, [vid, 'release'])
            if v.kind == 'W':
                return self.emit('tw', None, [vid, 'release'])
            if v.kind == 'R':
                return self.emit('rg', None, [vid, 'release'])
            if v.kind == 'L':
                return self.emit('list', None, [vid, 'drop'])
            return self.emit('map', None, [vid, 'drop'])
        k = r.choices(['I', 'W', 'R', 'L', 'M'], [22, 20, 30, 20, 8])[0]
        vid = self.newv()
        if k in 'IW':
            root = self.pick(lambda n: n.t in (ELEMENT, DOC, FRAG) or r.random() < 0.05)
            if root is None:
                return None
            show = r.choice([0xFFFF, 0xFFFF, 0xFFFF, 1, 1 | 4, 4 | 8, 0xFFFF & ~1, 128 | 1, 0xFFFF & ~4])
            fk = r.choice([0, 0, 0, 1, 2, 3])
            e = self.emit('mkIter' if k == 'I' else 'mkWalker', None, [vid, root.h, show, fk, 1])
            if k == 'I' and e is not None:
                self._settle_iterators()
            return e
        if k == 'R':
            d = self.pick_doc()
            if d is None:
                return None
            e = self.emit('mkRange', None, [vid, d.h])
            if e is not None and not self.stopped:
                self.g_rgset(vid)
            return e
        if k == 'L':
            x = r.random()
            if x < 0.3:
                n = self.pick(lambda n: n.t in (ELEMENT, DOC, FRAG))
                return self.emit('mkList', None, [vid, 'children', n.h]) if n else None
            n = self.pick(lambda n: n.t in (ELEMENT, DOC))
            if n is None:
                return None
            if x < 0.7:
                return self.emit('mkList', None, [vid, 'tag', n.h, r.choice(['*', 'a', 'b', 'p:a', 'c', 'q:b'])])
            return self.emit('mkList', None, [vid, 'tagNS', n.h, r.choice(['*', 'urn:u1', 'urn:u2', None]), r.choice(['*', 'a', 'b', 'c'])])
        n = self.pick(lambda n: n.t == ELEMENT)
        return self.emit('mkMap', None, [vid, n.h]) if n else None

    def _boundary(self, doc):
        """a (container, offset) pair inside doc; mostly legal, sometimes out of range"""
        r = self.r
        c = self.pick(lambda n: (n.docnode() is doc and n.t in (ELEMENT, TEXT, CDATA, COMMENT, PI, DOC, FRAG) or (n is doc))
                      and (_root_of(n).t != ATTR or r.random() < 0.03))
        if c is None:
            return None
        ln = node_length(c)
        x = r.random()
        if x < 0.05:
            o = ln + r.choice([1, 5])
        elif x < 0.3:
            o = 0
        elif x < 0.5:
            o = ln
        else:
            o = r.randrange(ln + 1)
        return c, o

    def g_rgset(self, vid=None):
        r = self.r
        if vid is None:
            c = self.live_views('R')
            if not c:
                return None
            vid, v = r.choice(c)
        v = self.m.views[vid]
        k = r.choices(['setStart', 'setEnd', 'setStartBefore', 'setStartAfter', 'setEndBefore', 'setEndAfter', 'selectNode', 'selectNodeContents',
                       'collapse', 'both'], [14, 14, 5, 5, 5, 5, 10, 10, 4, 28])[0]
        if k in ('setStart', 'setEnd', 'both'):
            b = self._boundary(v.doc)
            if b is None:
                return None
            if k == 'both':
                b2 = self._boundary(v.doc)
                if b2 is None:
                    return None
                try:
                    if _root_of(b[0]) is _root_of(b2[0]) and cmp_points(b[0], min(b[1], node_length(b[0])), b2[0], min(b2[1], node_length(b2[0]))) > 0:
                        b, b2 = b2, b
                except Undecided:
                    pass
                self.emit('rg', None, [vid, 'setStart', b[0].h, b[1]])
                if self.stopped:
                    return None
                return self.emit('rg', None, [vid, 'setEnd', b2[0].h, b2[1]])
            return self.emit('rg', None, [vid, k, b[0].h, b[1]])
        if k == 'collapse':
            return self.emit('rg', None, [vid, 'collapse', r.choice([0, 1])])
        if k == 'selectNodeContents':
            n = self.pick(lambda n: (n.docnode() is v.doc or n is v.doc) and (_root_of(n).t != ATTR or r.random() < 0.03))
        elif r.random() < 0.9:
            n = self.pick(lambda n: n.docnode() is v.doc and n.parent is not None and n.t != DOCTYPE and (_root_of(n).t != ATTR or r.random() < 0.03))
        else:       # illegal node types for these setters
            n = self.pick(lambda n: n.docnode() is v.doc and n.t in (ATTR, FRAG, DOC)) or self.pick(lambda n: n is v.doc)
        if n is None:
            return None
        return self.emit('rg', None, [vid, k, n.h])

    def g_query(self):          # overrides the C13 version when views exist
        r = self.r
        if self.views and self.m.views and r.random() < 0.85:
            return self.g_viewquery()
        a, b = self.pick(), self.pick()
        if a is None:
            return None
        k = r.choice(['eq', 'eq', 'same', 'cmp', 'cmp'])
        if k == 'eq' and r.random() < 0.5:
            b = self.pick(lambda n: n.t == a.t) or b
        if k == 'cmp' and r.random() < 0.6:
            b = self.pick(lambda n: n.root() is a.root()) or b
        return self.emit(k, None, [a.h, b.h])

    def g_getbyid(self):
        r = self.r
        d = self.pick_doc()
        if d is None:
            return None
        vals = [attr_value(n) for n in self.m.all_nodes_of(d) if n.t == ATTR and (n.isid or r.random() < 0.2)]
        val = r.choice(vals) if vals and r.random() < 0.85 else r.choice(DATA)
        return self.emit('getById', None, [d.h, val])

    def g_viewquery(self, vid=None):
        r = self.r
        if r.random() < 0.06:
            return self.g_getbyid()
        if vid is None:
            vid, v = r.choice(self.live_views())
        else:
            v = self.m.views[vid]
        if v.kind == 'I':
            return self.emit('it', None, [vid, r.choices(['next', 'prev', 'root', 'detach'], [50, 40, 3, 1])[0]])
        if v.kind == 'W':
            k = r.choices(['parent', 'first', 'last', 'prevSib', 'nextSib', 'prev', 'next', 'cur', 'set'], [8, 12, 8, 10, 12, 15, 20, 5, 10])[0]
            if not _tw_inside(v) and k not in ('cur', 'set'):
                k = 'set'
            if k == 'set':
                def clean(n):
                    x = n
                    while x is not None and x is not v.root:
                        if v.accept(x, True) == FILTER_REJECT:
                            return False
                        x = x.parent
                    return x is v.root
                n = self.pick(lambda n: n.t != ATTR and clean(n) and (v.accept(n) == FILTER_ACCEPT or r.random() < 0.1))
                if n is None:
                    return self.emit('tw', None, [vid, 'release'])
                return self.emit('tw', None, [vid, 'set', n.h])
            return self.emit('tw', None, [vid, k])
        if v.kind == 'L':
            k = r.choices(['all', 'len', 'item'], [50, 20, 30])[0]
            if k == 'item':
                ln = len(v.nodes())
                return self.emit('list', None, [vid, 'item', r.choice([0, ln, max(0, ln - 1), r.randrange(ln + 2)])])
            return self.emit('list', None, [vid, k])
        if v.kind == 'M':
            k = r.choices(['names', 'len', 'get', 'getNS'], [50, 20, 20, 10])[0]
            if k == 'get':
                return self.emit('map', None, [vid, 'get', self._attr_name_for(v.el)])
            if k == 'getNS':
                ns, qn = r.choice(NS_GOOD)
                return self.emit('map', None, [vid, 'getNS', ns, qn.split(':')[-1]])
            return self.emit('map', None, [vid, k])
        # range
        k = r.choices(['get', 'toString', 'cac', 'cmp', 'set', 'cloneRange', 'content', 'detach'], [40, 12, 6, 10, 18, 2, 11, 1])[0]
        if k == 'set':
            return self.g_rgset(vid)
        if k == 'cmp':
            others = [(i, o) for i, o in self.live_views('R') if o.detached or v.detached or o.doc is not v.doc or _root_of(o.sc) is _root_of(v.sc)
                      and _root_of(o.ec) is _root_of(v.ec) and _root_of(o.sc) is _root_of(o.ec)]
            if not others:
                return None
            ov, _ = r.choice(others)
            return self.emit('rg', None, [vid, 'cmp', r.randrange(4), ov])
        if k == 'cloneRange':
            if len(self.m.views) >= 8:
                return None
            return self.emit('rg', None, [vid, 'cloneRange', self.newv()])
        if k == 'content':
            return self.g_rgcontent(vid)
        return self.emit('rg', None, [vid, k])

    def g_rgcontent(self, vid):
        r = self.r
        v = self.m.views[vid]
        k = r.choices(['delete', 'extract', 'cloneContents', 'insertNode', 'surround'], [20, 25, 25, 18, 12])[0]
        self._settle_iterators()
        if self.stopped:
            return None
        if k in ('extract', 'cloneContents'):
            return self.emit('rg', self.newh(), [vid, k])
        if k == 'delete':
            return self.emit('rg', None, [vid, k])
        if k == 'insertNode':
            n = self.pick(lambda n: n.docnode() is v.doc and n.parent is None and n.t in (ELEMENT, TEXT, COMMENT, PI, CDATA, FRAG) or r.random() < 0.05)
        else:
            n = self.pick(lambda n: n.docnode() is v.doc and n.t == ELEMENT and not n.kids and n.parent is None or r.random() < 0.05)
        if n is None:
            return None
        return self.emit('rg', None, [vid, k, n.h])

    g_rgset_ = None

    def probe_views(self, limit=3):
        """after a mutation: ask some of the live views what they see now"""
        r = self.r
        vs = self.live_views()
        r.shuffle(vs)
        n = 0
        for vid, v in vs:
            if self.stopped or n >= limit:
                break
            if vid not in self.m.views:
                continue
            if v.kind == 'R':
                if v.detached:
                    continue
                self.emit('rg', None, [vid, 'get'])
            elif v.kind == 'L':
                self.emit('list', None, [vid, 'all'])
            elif v.kind == 'M':
                self.emit('map', None, [vid, 'names'])
            elif v.kind == 'I':
                if v.detached:
                    continue
                self.emit('it', None, [vid, r.choice(['next', 'prev'])])
            else:
                self.emit('tw', None, [vid, r.choice(['cur', 'next', 'prev', 'parent', 'nextSib', 'prevSib', 'first', 'last']) if _tw_inside(v) else 'cur'])
            n += 1

    # ---------------------------------------------------------------- tail operations (known-defect classes)
    def tail(self):
        """one of the operand classes behind which the real library is known to be broken (DESIGN section 5 and notes/C13.md)"""
        r = self.r
        x = r.random()
        if x < 0.40:
            n = self.pick(lambda n: n.t in (TEXT, CDATA) and n.parent is not None and n.parent.t == ELEMENT and self.m._under_docelement(n)
                          and self.m.tail_class(('wholeText', None, [n])) is not None)
            if n is None:
                return None
            if r.random() < 0.4:
                return self.emit('wholeText', None, [n.h], tail=True)
            return self.emit('replaceWholeText', self.newh(), [n.h, r.choice(['Z', 'tail'])], tail=True)
        if x < 0.65:
            a = self.pick(lambda n: n.t == ATTR and n.owner is not None and n.owner.h is not None)
            if a is None:
                return None
            return self.emit('setAttrNode', self.newh(), [a.owner.h, a.h], tail=True)
        if x < 0.80:
            el = self.pick(lambda n: n.t == ELEMENT and n.mapdirty and n.attrs)
            if el is None:
                return None
            nm = r.choice(el.attrs).name
            k = r.choice(['setAttr', 'getAttr', 'remAttr', 'hasAttr'])
            return self.emit(k, None, [el.h, nm] + (['Z'] if k == 'setAttr' else []), tail=True)
        d = self.pick_doc()
        n = self.pick(lambda n: (n.t in (ELEMENT, ATTR) and n.l2 and d is n.docnode()) or (n.t == ATTR and n.owner is not None and d is n.docnode()))
        if n is None:
            return None
        ns, qn = r.choice([('urn:u2', 'a:'), ('urn:u1', 'xml:a'), ('urn:u1', 'a:b:c'), ('urn:u1', ':a'), ('urn:u1', 'a:'), ('urn:u1', 'p:1a')])
        return self.emit('rename', self.newh(), [d.h, n.h, ns, qn], tail=True)

    # ---------------------------------------------------------------- whole script
    def script(self, tail_prob=0.04):
        self.setup()
        guard = 0
        while self.nreal < self.nops and self.stopped is None and guard < self.nops * 20:
            guard += 1
            if not self.m.docs:
                break
            self.step()
        if self.stopped is None and self.r.random() < tail_prob:
            self.tail()
        return self.ops


def script_text(ops):
    return '\n'.join(o.render() for o in ops)


def _dec_tok(t):
    if t == '~':
        return None
    if t == '%':
        return ''
    b = bytearray()
    i = 0
    while i < len(t):
        if t[i] == '%' and i + 2 < len(t) + 1 and len(t) - i >= 3:
            b.append(int(t[i + 1:i + 3], 16))
            i += 3
        else:
            b.extend(t[i].encode('utf-8'))
            i += 1
    return b.decode('utf-8', 'surrogatepass')


def parse_script(text):
    """script text (as rendered by ScriptOp.render) -> [ScriptOp]; used for hand-written special cases and witnesses"""
    ops = []
    for line in text.strip().split('\n'):
        tk = line.split()
        if not tk or tk[0] == '#':
            continue
        kills = []
        while tk and tk[-1].startswith('!n'):
            kills.append(int(tk.pop()[2:]))
        name, want = tk[0], None
        if '=' in name:
            name, w = name.split('=')
            want = int(w[1:])
        sig = SIG[name]
        if name in ('tw', 'list', 'map', 'rg', 'it') and len(tk) > 2:
            sig = sig + SUBSIG.get((name, tk[2]), '')
        args = []
        for i, t in enumerate(tk[1:]):
            k = sig[i] if i < len(sig) and sig[i] != '*' else '*'
            if k in 'dnN':
                args.append(None if t == '~' else int(t[1:]))
            elif k == 'v':
                args.append(int(t[1:]))
            elif k in 'ib':
                args.append(int(t))
            elif k == 'w':
                args.append(t)
            elif k == '*':
                args.append(int(t) if t.isdigit() else _dec_tok(t))
            else:
                args.append(to_units(_dec_tok(t)))
        ops.append(ScriptOp(name, want, args, sorted(kills)))
    return ops


# ---------------------------------------------------------------------------------------------------
#  exhaustive enumeration over a small fixed tree
# ---------------------------------------------------------------------------------------------------
#   n0 document [ n1 <r> [ n2 <e> [ n3 "tx" ], n6 <!--c--> ] ]      detached: n4 <x>, n5 "ty", n7 fragment [ n8 <f> ]
#   n9 second document [ n10 <g> ]
EXH_SETUP = [
    ('newdoc', 0, [None, 'r', 0]), ('bind', 1, [0, 'de']), ('cE', 2, [0, 'e']), ('app', None, [1, 2]), ('cT', 3, [0, 'tx']),
    ('app', None, [2, 3]), ('cE', 4, [0, 'x']), ('cT', 5, [0, 'ty']), ('cC', 6, [0, 'c']), ('app', None, [1, 6]), ('cDF', 7, [0]),
    ('cE', 8, [0, 'f']), ('app', None, [7, 8]), ('newdoc', 9, [None, 'g', 0]), ('bind', 10, [9, 'de']),
]


def exh_ops(reduced):
    """the operation alphabet; `reduced` selects the smaller set used for depth 3.  New handles are filled in per position."""
    ops = []
    P = [0, 1, 2, 3, 4, 7] if not reduced else [0, 1, 2, 4]
    C = [0, 1, 2, 3, 4, 5, 6, 7, 10] if not reduced else [1, 2, 3, 4, 7]
    for p in P:
        for c in C:
            ops.append(('app', None, [p, c]))
    for p in ([1, 2, 4] if not reduced else [1, 2]):
        for c in ([2, 3, 4, 5, 6, 7] if not reduced else [2, 3, 4]):
            for ref in ([2, 3, 6] if not reduced else [2, 6]):
                ops.append(('ins', None, [p, c, ref]))
    for p in ([0, 1, 2, 4] if not reduced else [1, 2]):
        for c in ([1, 2, 3, 4, 6] if not reduced else [2, 3, 6]):
            ops.append(('rem', None, [p, c]))
    for p in ([0, 1, 2] if not reduced else [1]):
        for c in ([2, 3, 4, 5, 7] if not reduced else [3, 4, 7]):
            for old in ([1, 2, 3, 6] if not reduced else [2, 6]):
                ops.append(('rep', None, [p, c, old]))
    for off in ([0, 1, 2, 3] if not reduced else [1]):
        ops.append(('splitText', 'NEW', [3, off]))
    ops += [('normalize', None, [1]), ('setAttr', None, [2, 'a', '1']), ('remAttr', None, [2, 'a']), ('clone', 'NEW', [2, 1]),
            ('deleteData', None, [3, 0, 1]), ('setTC', None, [2, 'W']), ('release', None, [4]), ('adopt', None, [0, 2])]
    if not reduced:
        ops += [('normalize', None, [0]), ('setAttr', None, [2, 'b', '2']), ('setAttrNS', None, [2, 'urn:u1', 'p:a', 'v']),
                ('clone', 'NEW', [2, 0]), ('clone', 'NEW', [1, 1]), ('insertData', None, [3, 1, 'Z']), ('appendData', None, [3, 'Q']),
                ('setData', None, [3, '']), ('setTC', None, [2, '']), ('release', None, [2]), ('rename', 'NEW', [0, 2, None, 'z']),
                ('rename', 'NEW', [0, 2, 'urn:u1', 'p:z']), ('import', 'NEW', [0, 10, 1]), ('replaceWholeText', 'NEW', [3, 'R']),
                ('release', None, [7]), ('setAttrNode', 'NEW', [2, 2])]
        ops = [o for o in ops if not (o[0] == 'setAttrNode')]
    return ops


def exh_script(seq):
    """-> (ops incl. set-up and kill lines, number of set-up operations, stopped-reason) or None when a handle is dead"""
    m = Model()
    m.quirk = set(KNOWN_DEVIATIONS)
    out = []
    for name, want, args in EXH_SETUP:
        op = ScriptOp(name, want, args)
        m.apply(op.resolve(m))
        out.append(op)
    nset = len(out)
    stopped = None
    for pos, (name, want, args) in enumerate(seq):
        op = ScriptOp(name, 20 + pos if want == 'NEW' else None, args)
        try:
            rop = op.resolve(m)
        except KeyError:
            return None
        try:
            exp = m.apply(rop)
        except Undecided as u:
            return None
        out.append(op)
        op.kills = sorted(set(exp.kills))
        if exp.dontcare or exp.cls in TAIL_ONLY:
            # implementation dependent, or an operand class behind which the real tree is known to be broken: the sequence ends here
            stopped = exp.cls
            break
    return out, nset, stopped


# ===================================================================================================
#  views (property C14): live NodeLists / NamedNodeMaps, NodeIterator, TreeWalker, Range
#  written from DOM Level 2 Traversal-Range (iterator reference node + before/after position, TreeWalker logical view,
#  Range boundary-point fix-ups of section 2.12 and the content operations of section 2.7-2.9)
# ===================================================================================================
FILTER_ACCEPT, FILTER_REJECT, FILTER_SKIP = 1, 2, 3
CHARDATA_TYPES = (TEXT, CDATA, COMMENT, PI)


def script_filter(kind, n):
    """mirror of ScriptFilter::acceptNode in drivers/xd_domscript.cpp"""
    t = n.t
    nm = n.node_name()
    if kind == 1:
        if t == ELEMENT and nm:
            if nm[0] == 'a':
                return FILTER_SKIP
            if nm[0] == 'b':
                return FILTER_REJECT
        return FILTER_ACCEPT
    if kind == 2:
        if t in (TEXT, CDATA):
            return FILTER_ACCEPT if n.data else FILTER_SKIP
        if t == COMMENT:
            return FILTER_REJECT
        return FILTER_ACCEPT
    if kind == 3:
        if t == ELEMENT and nm and nm[0] == 'c':
            return FILTER_REJECT
        if t == ELEMENT and nm and nm[0] == 'x':
            return FILTER_SKIP
        return FILTER_ACCEPT
    return FILTER_ACCEPT


class ViewBase:
    kind = '?'

    def __init__(self, doc):
        self.doc = doc

    def before_remove(self, m, n): pass
    def after_insert(self, m, n): pass
    def text_changed(self, m, n, kind, off, cnt, ins): pass
    def text_split(self, m, old, new, off): pass
    def before_release(self, m, n): pass

    def refers_to(self, n):
        """does this view keep a pointer to n or to a node below n (releasing it would leave the view dangling)?"""
        return False


def _in_subtree(x, top):
    while x is not None:
        if x is top:
            return True
        x = x.tree_parent()
    return False


def doc_order_next(n, root, descend=True):
    """next node in document order inside the subtree of root (None at the end)"""
    if descend and n.kids:
        return n.kids[0]
    while n is not None and n is not root:
        nx = n.next()
        if nx is not None:
            return nx
        n = n.parent
    return None


def doc_order_prev(n, root):
    if n is root:
        return None
    p = n.prev()
    if p is None:
        return n.parent
    while p.kids:
        p = p.kids[-1]
    return p


class ListView(ViewBase):
    kind = 'L'

    def __init__(self, doc, how, root, a=None, b=None):
        ViewBase.__init__(self, doc)
        self.how, self.root, self.a, self.b = how, root, a, b

    def nodes(self):
        r = self.root
        if self.how == 'children':
            return list(r.kids)
        out = []
        n = doc_order_next(r, r)
        while n is not None:
            if n.t == ELEMENT:
                if self.how == 'tag':
                    if self.a == '*' or n.name == self.a:
                        out.append(n)
                else:
                    if (self.a == '*' or n.ns == self.a) and (self.b == '*' or (n.local is not None and n.local == self.b)):
                        out.append(n)
            n = doc_order_next(n, r)
        return out

    def refers_to(self, n):
        return _in_subtree(self.root, n)


class MapView(ViewBase):
    kind = 'M'

    def __init__(self, doc, el):
        ViewBase.__init__(self, doc)
        self.el = el

    def refers_to(self, n):
        return _in_subtree(self.el, n)


class IterView(ViewBase):
    kind = 'I'

    def __init__(self, doc, root, show, fk):
        ViewBase.__init__(self, doc)
        self.root, self.show, self.fk = root, show, fk
        self.ref = None          # reference node (None: before the first node, nothing returned yet)
        self.after = True        # position of the iterator relative to the reference node
        self.detached = False

    def accept(self, n):
        if not (self.show >> (n.t - 1)) & 1:
            return False
        return self.fk == 0 or script_filter(self.fk, n) == FILTER_ACCEPT

    def before_remove(self, m, n):
        if self.detached or self.ref is None:
            return
        # is the reference node inside the subtree being removed (and is that subtree inside the iterator's root)?
        x = self.ref
        hit = False
        while x is not None and x is not self.root:
            if x is n:
                hit = True
                break
            x = x.parent
        if not hit:
            return
        if self.after:
            # the nearest node before the removed subtree becomes the reference node
            self.ref = doc_order_prev(n, self.root)
        else:
            nx = doc_order_next(n, self.root, descend=False)
            if nx is not None:
                self.ref = nx
            else:
                self.ref = doc_order_prev(n, self.root)
                self.after = True

    def refers_to(self, n):
        return _in_subtree(self.root, n) or (self.ref is not None and _in_subtree(self.ref, n))


class WalkerView(ViewBase):
    kind = 'W'

    def __init__(self, doc, root, show, fk):
        ViewBase.__init__(self, doc)
        self.root, self.show, self.fk = root, show, fk
        self.cur = root

    def accept(self, n, xerces_reject=False):
        if not (self.show >> (n.t - 1)) & 1:
            if xerces_reject and self.fk and script_filter(self.fk, n) == FILTER_REJECT:
                return FILTER_REJECT
            return FILTER_SKIP
        return script_filter(self.fk, n) if self.fk else FILTER_ACCEPT

    def refers_to(self, n):
        return _in_subtree(self.root, n) or _in_subtree(self.cur, n)


class RangeView(ViewBase):
    kind = 'R'

    def __init__(self, doc):
        ViewBase.__init__(self, doc)
        self.sc = self.ec = doc
        self.so = self.eo = 0
        self.detached = False
        self.insert_bug_exposed = False

    # ---- section 2.12 of DOM Level 2 Range
    def after_insert(self, m, n):
        if self.detached:
            return
        p = n.parent
        i = p.kids.index(n)
        if p is self.sc and i < self.so:
            self.so += 1
        if p is self.ec and i < self.eo:
            self.eo += 1

    def before_remove(self, m, n):
        if self.detached:
            return
        p = n.parent
        i = p.kids.index(n)
        if _is_anc_or_self(n, self.sc):
            self.sc, self.so = p, i
        elif p is self.sc and self.so > i:
            self.so -= 1
        if _is_anc_or_self(n, self.ec):
            self.ec, self.eo = p, i
        elif p is self.ec and self.eo > i:
            self.eo -= 1

    def text_changed(self, m, n, kind, off, cnt, ins):
        if self.detached:
            return
        for which in ('s', 'e'):
            c, o = (self.sc, self.so) if which == 's' else (self.ec, self.eo)
            if c is not n:
                continue
            if kind == 'replace-all':
                o = 0
            elif kind == 'delete':
                if o > off + cnt:
                    o -= cnt
                elif o > off:
                    o = off
            elif kind == 'insert':
                if o > off:
                    if which == 's' and 'range-insertData-start-not-shifted' in m.quirk:
                        o = off
                    else:
                        o += ins
            if which == 's':
                self.so = o
            else:
                self.eo = o

    def text_split(self, m, old, new, off):
        if self.detached:
            return
        if self.sc is old and self.so > off:
            self.sc, self.so = new, self.so - off
        if self.ec is old and self.eo > off:
            self.ec, self.eo = new, self.eo - off

    def refers_to(self, n):
        return (not self.detached) and (_in_subtree(self.sc, n) or _in_subtree(self.ec, n))


def _is_anc_or_self(a, b):
    while b is not None:
        if b is a:
            return True
        b = b.parent
    return False


def node_length(n):
    return len(n.data) if n.t in CHARDATA_TYPES else len(n.kids)


def cmp_points(ac, ao, bc, bo):
    """-1 / 0 / 1: boundary point A before / equal / after boundary point B (same root assumed)"""
    if ac is bc:
        return (ao > bo) - (ao < bo)
    # is B inside a child of A's container?
    x = bc
    while x is not None and x.parent is not ac:
        x = x.parent
    if x is not None:
        return -1 if ao <= ac.kids.index(x) else 1
    x = ac
    while x is not None and x.parent is not bc:
        x = x.parent
    if x is not None:
        return -1 if bc.kids.index(x) < bo else 1
    # general case: document order of the containers
    ca, cb = [], []
    x = ac
    while x is not None:
        ca.append(x); x = x.parent
    x = bc
    while x is not None:
        cb.append(x); x = x.parent
    ca.reverse(); cb.reverse()
    if ca[0] is not cb[0]:
        raise Undecided('boundary points in different trees')
    i = 0
    while i < len(ca) and i < len(cb) and ca[i] is cb[i]:
        i += 1
    p = ca[i - 1]
    return -1 if p.kids.index(ca[i]) < p.kids.index(cb[i]) else 1


def _root_of(n):
    while n.parent is not None:
        n = n.parent
    return n


def _view(m, vid, kind):
    v = m.views.get(vid)
    if v is None or v.kind != kind:
        raise KeyError('v%s' % vid)
    return v


def _op_mkIter(self, want, vid, root, show, fk, expand):
    e = Exp()
    self.views[vid] = IterView(root.docnode(), root, show, fk)
    e.cls = TYPE_NAMES[root.t]
    return e


def _op_mkWalker(self, want, vid, root, show, fk, expand):
    e = Exp()
    self.views[vid] = WalkerView(root.docnode(), root, show, fk)
    e.cls = TYPE_NAMES[root.t]
    return e


def _op_it(self, want, vid, what):
    e = Exp()
    v = _view(self, vid, 'I')
    if what in ('detach', 'release'):
        if what == 'detach' and v.detached:
            e.res = None
        v.detached = True
        if what == 'release':
            del self.views[vid]
        e.cls = what
        return e
    if what == 'root':
        e.res = self.ref(v.root)
        return e
    if v.detached:
        e.codes = {INVALID_STATE}; e.cls = 'detached'
        return e
    root = v.root
    e.cls = what
    if what == 'next':
        if v.ref is None:
            cand = root
        elif not v.after:
            cand = v.ref
        else:
            cand = doc_order_next(v.ref, root)
        while cand is not None and not v.accept(cand):
            cand = doc_order_next(cand, root)
        if cand is not None:
            v.ref, v.after = cand, True
        elif v.ref is not None and not v.after:
            v.after = True          # (Xerces flips the direction flag even when nothing is returned; unobservable with stable filters)
        e.res = self.ref(cand)
        return e
    if what == 'prev':
        if v.ref is None:
            e.res = 'null'
            return e
        cand = v.ref if v.after else doc_order_prev(v.ref, root)
        while cand is not None and not v.accept(cand):
            cand = doc_order_prev(cand, root)
        if cand is not None:
            v.ref, v.after = cand, False
        else:
            v.after = False
        e.res = self.ref(cand)
        return e
    raise Undecided('iterator op ' + what)


# ---- TreeWalker (the algorithms of the DOM Traversal text as later spelled out by DOM4)
def _tw_inside(v):
    """current node inside the root subtree and not inside a subtree the filter REJECTs (DOM Traversal does not say how a walker
    whose current node was put into a rejected subtree navigates; DOM4 and Xerces differ)"""
    x = v.cur
    while x is not None:
        if x is v.root:
            return True
        if v.accept(x, True) == FILTER_REJECT:
            return False
        x = x.parent
    return False


def _tw_children(v, first, q):
    node = v.cur
    node = (node.kids[0] if first else node.kids[-1]) if node.kids else None
    while node is not None:
        r = v.accept(node, q)
        if r == FILTER_ACCEPT:
            return node
        if r == FILTER_SKIP and node.kids:
            node = node.kids[0] if first else node.kids[-1]
            continue
        while node is not None:
            sib = node.next() if first else node.prev()
            if sib is not None:
                node = sib
                break
            parent = node.parent
            if parent is None or parent is v.root or parent is v.cur:
                return None
            node = parent
    return None


def _tw_siblings(v, nxt, q):
    node = v.cur
    if node is v.root:
        return None
    while True:
        sib = node.next() if nxt else node.prev()
        while sib is not None:
            node = sib
            r = v.accept(node, q)
            if r == FILTER_ACCEPT:
                return node
            sib = (node.kids[0] if nxt else node.kids[-1]) if node.kids else None
            if r == FILTER_REJECT or sib is None:
                sib = node.next() if nxt else node.prev()
        node = node.parent
        if node is None or node is v.root:
            return None
        if v.accept(node, q) == FILTER_ACCEPT:
            return None


# ---- DOMTreeWalkerImpl::previousNode as implemented (quirk alternative 'treewalker-previousNode-one-level'): after stepping to the
#      previous sibling it descends ONE level (getLastChild) instead of to the deepest last descendant
def _x_parent(v, node):
    if node is None or node is v.root:
        return None
    p = node.parent
    if p is None:
        return None
    if v.accept(p, True) == FILTER_ACCEPT:
        return p
    return _x_parent(v, p)


def _x_prevsib(v, node):
    if node is None or node is v.root:
        return None
    nn = node.prev()
    if nn is None:
        nn = node.parent
        if nn is None or node is v.root:
            return None
        if v.accept(nn, True) == FILTER_SKIP:
            return _x_prevsib(v, nn)
        return None
    a = v.accept(nn, True)
    if a == FILTER_ACCEPT:
        return nn
    if a == FILTER_SKIP:
        c = _x_lastchild(v, nn)
        if c is None and not nn.kids:
            return _x_prevsib(v, nn)
        return c
    return _x_prevsib(v, nn)


def _x_lastchild(v, node):
    if node is None or not node.kids:
        return None
    nn = node.kids[-1]
    a = v.accept(nn, True)
    if a == FILTER_ACCEPT:
        return nn
    if a == FILTER_SKIP and nn.kids:
        return _x_lastchild(v, nn)
    return _x_prevsib(v, nn)


def _x_previous_node(v):
    node = _x_prevsib(v, v.cur)
    if node is None:
        return _x_parent(v, v.cur)
    lc = _x_lastchild(v, node)
    return lc if lc is not None else node


def _op_tw(self, want, vid, what, *a):
    e = Exp()
    v = _view(self, vid, 'W')
    e.cls = what
    q = 'treewalker-hidden-node-filter-reject' in self.quirk
    if what == 'release':
        del self.views[vid]
        return e
    if what == 'cur':
        e.res = self.ref(v.cur)
        return e
    if what == 'root':
        e.res = self.ref(v.root)
        return e
    if what == 'set':
        v.cur = a[0]
        return e
    if not _tw_inside(v):
        raise Undecided('current node outside the root of the TreeWalker or inside a rejected subtree')
    if v.fk and (v.show & 0xFFF) != 0xFFF:
        e.quirks.append('treewalker-hidden-node-filter-reject')
    res = None
    if what == 'parent':
        node = v.cur
        while node is not None and node is not v.root:
            node = node.parent
            if node is not None and v.accept(node, q) == FILTER_ACCEPT:
                res = node
                break
    elif what in ('first', 'last'):
        res = _tw_children(v, what == 'first', q)
    elif what in ('nextSib', 'prevSib'):
        res = _tw_siblings(v, what == 'nextSib', q)
    elif what == 'next':
        node = v.cur
        r = FILTER_ACCEPT
        while True:
            found = False
            while r != FILTER_REJECT and node.kids:
                node = node.kids[0]
                r = v.accept(node, q)
                if r == FILTER_ACCEPT:
                    res = node; found = True
                    break
            if found:
                break
            sib = None
            tmp = node
            while tmp is not None:
                if tmp is v.root:
                    break
                sib = tmp.next()
                if sib is not None:
                    break
                tmp = tmp.parent
            if sib is None:
                break
            node = sib
            r = v.accept(node, q)
            if r == FILTER_ACCEPT:
                res = node
                break
    elif what == 'prev' and 'treewalker-previousNode-one-level' in self.quirk:
        e.quirks.append('treewalker-previousNode-one-level')
        res = _x_previous_node(v)
    elif what == 'prev':
        e.quirks.append('treewalker-previousNode-one-level')
        node = v.cur
        while node is not v.root:
            sib = node.prev()
            descended = False
            while sib is not None:
                node = sib
                r = v.accept(node, q)
                while r != FILTER_REJECT and node.kids:
                    node = node.kids[-1]
                    r = v.accept(node, q)
                if r == FILTER_ACCEPT:
                    res = node
                    break
                sib = node.prev()
            if res is not None:
                break
            if node is v.root or node.parent is None:
                break
            node = node.parent
            if v.accept(node, q) == FILTER_ACCEPT:
                res = node
                break
    else:
        raise Undecided('walker op ' + what)
    if res is not None:
        v.cur = res
    e.res = self.ref(res)
    return e


POOL_QUIRK = 'deeplist-pool-shares-tagname-and-null-namespace-lists'


def _op_mkList(self, want, vid, how, n, a=None, b=None):
    e = Exp()
    if how in ('tag', 'tagNS') and n.t not in (ELEMENT, DOC):
        raise Undecided('deep node list on a non-element')
    doc = n.docnode()
    eff = (how, a, b)
    e.cls = how
    if how == 'tag' or (how == 'tagNS' and a is None):
        # DOMDocumentImpl::getDeepNodeList keeps every deep list in a pool keyed by (root node, name, namespace URI) and files the
        # lists of getElementsByTagName(name) under namespace URI 0: getElementsByTagNameNS(null, name) on the same root finds that
        # entry (and vice versa) and hands out the SAME list object, which matches by the rule of whichever call came first
        name = a if how == 'tag' else b
        other = 'tagNS' if how == 'tag' else 'tag'
        if (name, other) in self.pool_released.get(id(doc), ()):
            raise Undecided('deep node list pool: a released root node of this document had the other kind of list under this name')
        key = (id(n), id(doc), name)
        first = self.listpool.get(key)
        if first is None:
            self.listpool[key] = (n, doc, eff)
        elif first[2][0] != how:
            e.quirks.append(POOL_QUIRK)
            e.cls = how + '-pooled-with-other-kind'
            if POOL_QUIRK in self.quirk:
                eff = first[2]
    self.views[vid] = ListView(doc, eff[0], n, eff[1], eff[2])
    return e


def _op_list(self, want, vid, what, *a):
    e = Exp()
    v = _view(self, vid, 'L')
    e.cls = v.how + '-' + what
    if what == 'drop':
        del self.views[vid]
        return e
    ns = v.nodes()
    if what == 'len':
        e.res = 'i:%d' % len(ns)
    elif what == 'item':
        i = a[0]
        e.res = self.ref(ns[i]) if 0 <= i < len(ns) else 'null'
    elif what == 'all':
        e.res = 'l:%d:%s' % (len(ns), ','.join(self.ref(x) for x in ns))
    return e


def _op_mkMap(self, want, vid, el):
    e = Exp()
    if el.t != ELEMENT:
        e.res = 'null'
        return e
    self.views[vid] = MapView(el.docnode(), el)
    return e


def _op_map(self, want, vid, what, *a):
    e = Exp()
    v = _view(self, vid, 'M')
    e.cls = what
    el = v.el
    if what == 'drop':
        del self.views[vid]
    elif what == 'len':
        e.res = 'i:%d' % len(el.attrs)
    elif what == 'get':
        e.res = self.ref(self._attr_by_name(el, a[0]))
    elif what == 'getNS':
        e.res = self.ref(self._attr_by_ns(el, a[0], a[1]))
    elif what == 'names':
        names = sorted(esc(x.name) + '=' + esc(attr_value(x)) for x in el.attrs)
        e.res = 'l:%d:%s' % (len(names), ','.join(names))
    return e


# ---- Range
def _op_mkRange(self, want, vid, doc):
    e = Exp()
    self.views[vid] = RangeView(doc)
    return e


def _rg_check_container(n):
    """INVALID_NODE_TYPE_ERR when n or an ancestor is an Entity, Notation or DocumentType"""
    x = n
    while x is not None:
        if x.t in (ENTITY, NOTATION, DOCTYPE):
            return True
        x = x.parent
    return False


def _rg_set(self, v, which, c, o):
    """set one boundary point, collapsing as DOM L2 Range 2.5 prescribes"""
    if which == 's':
        v.sc, v.so = c, o
        if _root_of(v.ec) is not _root_of(c) or cmp_points(v.sc, v.so, v.ec, v.eo) > 0:
            v.ec, v.eo = c, o
    else:
        v.ec, v.eo = c, o
        if _root_of(v.sc) is not _root_of(c) or cmp_points(v.sc, v.so, v.ec, v.eo) > 0:
            v.sc, v.so = c, o


def _rg_state(self, v):
    return 'r:%s,%d,%s,%d,%d' % (self.ref(v.sc), v.so, self.ref(v.ec), v.eo, 1 if (v.sc is v.ec and v.so == v.eo) else 0)


def _clone_for_range(self, n, deep, e):
    return self._clone(n, deep, e)


def _op_rg(self, want, vid, what, *a):
    e = Exp()
    v = _view(self, vid, 'R')
    e.cls = what
    if what == 'release':
        if v.detached:
            # release() is detach() in this implementation (doc/program-dom.xml): a second detach raises INVALID_STATE_ERR
            e.codes = {INVALID_STATE}; e.cls = 'release-detached'
            return e
        del self.views[vid]
        return e
    if v.detached:
        e.codes = {INVALID_STATE}; e.cls = what + '-detached'
        if what == 'cmp':
            o = _view(self, a[1], 'R')
            if o.doc is not v.doc:
                e.codes.add(WRONG_DOC)
        return e
    if what == 'detach':
        v.detached = True
        return e
    if what == 'get':
        if any(x.h is None for x in (v.sc, v.ec)):
            e.res = None
        e.res = _rg_state(self, v)
        return e
    if what == 'cac':
        x = set()
        n = v.sc
        while n is not None:
            x.add(id(n)); n = n.parent
        n = v.ec
        while n is not None and id(n) not in x:
            n = n.parent
        e.res = self.ref(n)
        return e
    if what in ('setStart', 'setEnd'):
        c, o = a
        errs = set()
        if _rg_check_container(c):
            errs.add(INVALID_NODE_TYPE)
        if o > node_length(c):
            errs.add(INDEX_SIZE)
        if c.docnode() is not v.doc:
            errs.add(WRONG_DOC)
        if errs:
            e.codes = errs
            if WRONG_DOC in errs and len(errs) == 1:
                # Xerces collapses the range before raising WRONG_DOCUMENT_ERR: unobservable when it was collapsed already
                raise Undecided('setStart/End with a foreign node')
            return e
        _rg_set(self, v, 's' if what == 'setStart' else 'e', c, o)
        e.res = _rg_state(self, v)
        return e
    if what in ('setStartBefore', 'setStartAfter', 'setEndBefore', 'setEndAfter', 'selectNode'):
        n = a[0]
        errs = set()
        # (for these setters the node type rule concerns the proper ancestors of refNode, a DocumentType itself may be selected)
        if (n.parent is not None and _rg_check_container(n.parent)) or n.t in (DOC, FRAG, ATTR, ENTITY, NOTATION):
            errs.add(INVALID_NODE_TYPE)
        if what != 'selectNode' and _root_of(n).t not in (ATTR, DOC, FRAG):
            errs.add(INVALID_NODE_TYPE)
        if n.docnode() is not v.doc:
            errs.add(WRONG_DOC)
        if errs:
            if WRONG_DOC in errs and len(errs) == 1:
                raise Undecided('range setter with a foreign node')
            e.codes = errs
            return e
        if n.parent is None:
            raise Undecided('range setter on a parentless node')
        if n.t == DOCTYPE:
            raise Undecided('range setter on a DocumentType (Xerces: selectNode refuses it, setStartBefore takes it)')
        p, i = n.parent, n.index()
        if what == 'selectNode':
            if n.t in CHARDATA_TYPES:
                e.quirks.append('range-selectNode-chardata-selects-contents')
                e.cls = 'selectNode-chardata'
                if 'range-selectNode-chardata-selects-contents' in self.quirk:
                    v.sc = v.ec = n
                    v.so, v.eo = 0, len(n.data)
                    e.res = _rg_state(self, v)
                    return e
            v.sc = v.ec = p
            v.so, v.eo = i, i + 1
            e.res = _rg_state(self, v)
            return e
        o = i if what.endswith('Before') else i + 1
        _rg_set(self, v, 's' if what.startswith('setStart') else 'e', p, o)
        e.res = _rg_state(self, v)
        return e
    if what == 'selectNodeContents':
        n = a[0]
        if _rg_check_container(n):
            e.codes = {INVALID_NODE_TYPE}
            return e
        if n.docnode() is not v.doc and n is not v.doc:
            raise Undecided('selectNodeContents with a foreign node')
        v.sc = v.ec = n
        v.so, v.eo = 0, node_length(n)
        e.res = _rg_state(self, v)
        return e
    if what == 'collapse':
        if a[0]:
            v.ec, v.eo = v.sc, v.so
        else:
            v.sc, v.so = v.ec, v.eo
        e.res = _rg_state(self, v)
        return e
    if what == 'cmp':
        how, vid2 = a
        o = _view(self, vid2, 'R')
        if o.detached:
            raise Undecided('compare with a detached range')
        if o.doc is not v.doc:
            e.codes = {WRONG_DOC}
            return e
        pa = {0: (v.sc, v.so), 1: (v.ec, v.eo), 2: (v.ec, v.eo), 3: (v.sc, v.so)}[how]
        pb = {0: (o.sc, o.so), 1: (o.sc, o.so), 2: (o.ec, o.eo), 3: (o.ec, o.eo)}[how]
        if _root_of(pa[0]) is not _root_of(pb[0]):
            raise Undecided('boundary points in different trees')
        e.res = 'i:%d' % cmp_points(pa[0], pa[1], pb[0], pb[1])
        return e
    if what == 'toString':
        if _root_of(v.sc) is not _root_of(v.ec):
            raise Undecided('range over two trees')
        plain = _rg_tostring(v)
        marked = _rg_tostring(v, True)
        if plain != marked:
            e.quirks.append('range-toString-includes-comment-and-pi-data')
            e.cls = 'toString-over-comment-or-pi'
        e.res = 's:' + esc(marked if 'range-toString-includes-comment-and-pi-data' in self.quirk else plain)
        return e
    if what == 'cloneRange':
        if _root_of(v.sc) is not _root_of(v.ec):
            # only reachable through splitText of a parentless Text node (the tail becomes a second parentless node): DOM Range
            # requires both boundary points under one root and says nothing about such a range (Xerces' clone collapses to the end)
            raise Undecided('range over two trees')
        nv = RangeView(v.doc)
        nv.sc, nv.so, nv.ec, nv.eo = v.sc, v.so, v.ec, v.eo
        self.views[a[0]] = nv
        return e
    if what in ('delete', 'extract', 'cloneContents'):
        frag = _rg_contents(self, v, what, e)
        if frag is not None:
            e.res = self.result(frag, want)
        else:
            e.res = _rg_state(self, v)
        return e
    if what in ('insertNode', 'surround'):
        e = _rg_insert(self, v, a[0], e) if what == 'insertNode' else _rg_surround(self, v, a[0], e)
        if e.codes is None:
            e.res = _rg_state(self, v)
        return e
    if what == 'insertNode':
        return _rg_insert(self, v, a[0], e)
    if what == 'surround':
        return _rg_surround(self, v, a[0], e)
    raise Undecided('range op ' + what)


def _rg_tostring(v, with_markup_data=False):
    """concatenation of the character data of Text / CDATASection nodes inside the range ("only the data characters, not any
    markup", DOM L2 Range 2.10); with_markup_data: also the data of comments and processing instructions (what Xerces returns)"""
    if v.sc is v.ec and v.so == v.eo:
        return ''
    out = []
    root = _root_of(v.sc)
    n = root
    types = CHARDATA_TYPES if with_markup_data else (TEXT, CDATA)
    while n is not None:
        if n.t in types:
            ln = len(n.data)
            # portion of n inside the range
            lo, hi = 0, ln
            if cmp_points(n, ln, v.sc, v.so) <= 0 or cmp_points(n, 0, v.ec, v.eo) >= 0:
                pass
            else:
                if n is v.sc:
                    lo = v.so
                if n is v.ec:
                    hi = v.eo
                out.append(n.data[lo:hi])
        n = doc_order_next(n, root)
    return ''.join(out)


def _range_extract(self, v, sc, so, ec, eo, what, e):
    """delete / extract / clone the content between two boundary points of one tree (DOM L2 Range 2.7-2.8).
    Returns (fragment or None, new collapsed position)."""
    mutate = what != 'cloneContents'
    frag = None
    if what != 'delete':
        frag = self.mk(FRAG, v.doc)
        frag.origin = 'range'

    def add(parent, node):
        if parent is not None and node is not None:
            parent.kids.append(node)
            node.parent = parent

    if sc is ec and so == eo:
        return frag, (sc, so)
    if sc is ec and sc.t in CHARDATA_TYPES:
        if frag is not None:
            c = self._clone(sc, False, e)
            c.data = sc.data[so:eo]
            c.origin = 'range'
            add(frag, c)
        if mutate:
            self._set_data(sc, sc.data[:so] + sc.data[eo:], 'delete', so, eo - so, 0)
        return frag, (sc, so)
    anc = set()
    n = sc
    while n is not None:
        anc.add(id(n))
        n = n.parent
    common = ec
    while id(common) not in anc:
        common = common.parent
    first_partial = None
    if not _is_anc_or_self(sc, ec):
        first_partial = sc
        while first_partial.parent is not common:
            first_partial = first_partial.parent
    last_partial = None
    if not _is_anc_or_self(ec, sc):
        last_partial = ec
        while last_partial.parent is not common:
            last_partial = last_partial.parent
    contained = [k for k in common.kids
                 if cmp_points(common, k.index(), sc, so) >= 0 and cmp_points(common, k.index() + 1, ec, eo) <= 0]
    if _is_anc_or_self(sc, ec):
        newpos = (sc, so)
    else:
        ref = sc
        while ref.parent is not None and not _is_anc_or_self(ref.parent, ec):
            ref = ref.parent
        newpos = (ref.parent, ref.index() + 1)

    def partial(node, first):
        if node.t in CHARDATA_TYPES:
            c = None
            # DOM: the selected part of the text is deleted (boundary points of other ranges follow the deleteData rule);
            # DOMRangeImpl::traverseTextNode uses setNodeValue, which resets every boundary point inside the node to offset 0
            q = 'range-contents-op-resets-offsets-in-partial-text' in self.quirk
            if mutate and 'range-contents-op-resets-offsets-in-partial-text' not in e.quirks:
                e.quirks.append('range-contents-op-resets-offsets-in-partial-text')
            if first:
                if frag is not None:
                    c = self._clone(node, False, e); c.data = node.data[so:]; c.origin = 'range'
                if mutate:
                    if q:
                        self._set_data(node, node.data[:so], 'replace-all')
                    else:
                        self._set_data(node, node.data[:so], 'delete', so, len(node.data) - so, 0)
            else:
                if frag is not None:
                    c = self._clone(node, False, e); c.data = node.data[:eo]; c.origin = 'range'
                if mutate:
                    if q:
                        self._set_data(node, node.data[eo:], 'replace-all')
                    else:
                        self._set_data(node, node.data[eo:], 'delete', 0, eo, 0)
            return c
        c = None
        if frag is not None:
            c = self._clone(node, False, e)
            c.origin = 'range'
        if first:
            sub, _ = _range_extract(self, v, sc, so, node, len(node.kids), what, e)
        else:
            sub, _ = _range_extract(self, v, node, 0, ec, eo, what, e)
        if c is not None and sub is not None:
            for k in list(sub.kids):
                sub.kids.remove(k)
                add(c, k)
        return c

    if first_partial is not None:
        add(frag, partial(first_partial, True))
    for k in contained:
        if not mutate:
            add(frag, self._clone(k, True, e))
        else:
            self._detach(k)
            add(frag, k)
    if last_partial is not None:
        add(frag, partial(last_partial, False))
    return frag, newpos


def _rg_contents(self, v, what, e):
    sc, so, ec, eo = v.sc, v.so, v.ec, v.eo
    if _root_of(sc) is not _root_of(ec):
        raise Undecided('range over two trees')
    if _root_of(sc).t not in (DOC, FRAG, ATTR) and not (sc is ec):
        # DOM L2 Range only defines ranges whose root container is a Document, DocumentFragment or Attr
        raise Undecided('content operation on a range inside a detached subtree')
    touched = _rg_nodes_touched(v)
    if any(x.t == DOCTYPE for x in touched):
        raise Undecided('doctype inside a range')
    if what != 'cloneContents':
        # DOM: NO_MODIFICATION_ALLOWED_ERR when read-only content is INSIDE the range.  DOMRangeImpl::checkReadOnly walks past the end
        # point (siblings of first children), so read-only nodes near the range can raise it as well: not decided here
        top = sc
        while not _is_anc_or_self(top, ec):
            top = top.parent
        if any(x.ro for x in subtree(top, attrs=False)):
            raise Undecided('range contents with read-only nodes nearby')
    e.cls = what + ('-collapsed' if (sc is ec and so == eo) else ('-same-container' if sc is ec else '-general'))
    frag, newpos = _range_extract(self, v, sc, so, ec, eo, what, e)
    if what != 'cloneContents':
        v.sc, v.so = newpos
        v.ec, v.eo = newpos
    return frag


def _rg_nodes_touched(v):
    """all nodes at least partially inside the range (containers, ancestors up to the common ancestor, contained subtrees)"""
    out = []
    root = _root_of(v.sc)
    n = root
    while n is not None:
        ln = node_length(n)
        if not (cmp_points(n, ln, v.sc, v.so) < 0 or cmp_points(n, 0, v.ec, v.eo) > 0):
            out.append(n)
        n = doc_order_next(n, root)
    return out


def _split_text(self, n, off):
    new = self.mk(n.t, n.doc, None, n.data[off:])
    new.origin = 'split'
    if n.parent is not None:
        self._attach(n.parent, new, n.next())
    n.data = n.data[:off]
    for vw in self.views.values():
        vw.text_split(self, n, new, off)
    return new


def _rg_insert(self, v, new, e, surround=False):
    """Range.insertNode (DOM L2 Range 2.9)"""
    sc, so = v.sc, v.so
    errs = set()
    if new.t in (ATTR, ENTITY, NOTATION, DOC):
        errs.add(INVALID_NODE_TYPE)
    if sc.t in (COMMENT, PI):
        raise Undecided('insertNode into a comment / processing instruction')
    if sc.t in (TEXT, CDATA):
        parent = sc.parent
        if parent is None:
            raise Undecided('insertNode into a parentless text node')
        if not (0 < so < len(sc.data)):
            raise Undecided('insertNode at the edge of a text node (whether the node is split there is not specified)')
    else:
        parent = sc
    if new.docnode() is not v.doc:
        errs.add(WRONG_DOC)
    ref_now = None if sc.t in (TEXT, CDATA) else (sc.kids[so] if so < len(sc.kids) else None)
    ie = self._insert_errors(parent, new, None)
    errs |= ie
    if parent.ro or sc.ro:
        raise Undecided('insertNode into read-only content')
    if new.is_ancestor_or_self_of(sc):
        errs.add(HIERARCHY)
    if new.ro:
        # DOMRangeImpl::insertNode tests newNode->isReadOnly() in its ancestor loop (instead of the ancestors of the start container)
        e.quirks.append('range-insertNode-readonly-newnode')
        if 'range-insertNode-readonly-newnode' in self.quirk:
            e.codes = errs | {NO_MOD}
            e.cls = 'insertNode-readonly-newnode'
            return e
    if errs == {HIERARCHY} and parent.t == DOC and sc is parent and new.t == FRAG and not new.is_ancestor_or_self_of(sc):
        # a fragment whose children are acceptable one by one but exceed the one-element / one-doctype rule: the insertion is
        # Node.insertBefore, including C13's deviation 'fragment-partial-insert' (children moved until the rule trips)
        e2 = self.op_ins(None, parent, new, ref_now)
        if e2.cls == 'fragment-exceeding-document-limits':
            e.quirks.extend(e2.quirks)
            e.codes = e2.codes
            e.cls = 'insertNode-fragment-exceeding-document-limits'
            return e
    if errs:
        e.codes = errs
        e.cls = 'insertNode-illegal'
        return e
    if new is ref_now:
        raise Undecided('insertNode of the node that already sits at the start')
    if new.t == FRAG and (sc in new.kids):
        raise Undecided('insertNode of a fragment holding the container')
    # the insertion itself behaves like Node.insertBefore, including the tree-level deviations of C13 (moving the document element,
    # a fragment that exceeds the limits of a Document)
    if parent.t == DOC and ((new.t in (ELEMENT, DOCTYPE) and new.parent is parent) or new.t == FRAG):
        if sc.t in (TEXT, CDATA):
            raise Undecided('insertNode splitting text under a document')
        e2 = self.op_ins(None, parent, new, ref_now)
        e.quirks.extend(e2.quirks)
        e.cls = 'insertNode-container'
        if e2.codes:
            e.codes = e2.codes
        return e
    if sc.t in (TEXT, CDATA):
        ref = _split_text(self, sc, so)
        e.cls = 'insertNode-text'
    else:
        ref = ref_now
        e.cls = 'insertNode-container'
    self._do_insert(parent, new, ref)
    return e


def _rg_surround(self, v, new, e):
    sc, so, ec, eo = v.sc, v.so, v.ec, v.eo
    errs = set()
    if new.t in (ATTR, ENTITY, DOCTYPE, NOTATION, DOC, FRAG):
        errs.add(INVALID_NODE_TYPE)
    if new.docnode() is not v.doc or new.t == DOC:
        errs.add(WRONG_DOC)          # (a Document has no owner document: Xerces answers WRONG_DOCUMENT_ERR for it)
    if COMMENT in (sc.t, ec.t) or PI in (sc.t, ec.t):
        raise Undecided('surroundContents with a boundary inside a comment / processing instruction')
    rs = sc.parent if sc.t in (TEXT, CDATA) else sc
    re_ = ec.parent if ec.t in (TEXT, CDATA) else ec
    if rs is not re_:
        errs.add(BAD_BOUNDARYPOINTS)
    if errs:
        e.codes = errs
        e.cls = 'surround-illegal'
        return e
    if new.kids or new.parent is not None:
        raise Undecided('surroundContents with a new parent that has children or a parent')
    if new.t != ELEMENT:
        raise Undecided('surroundContents with a non-element parent')
    if rs is None or _root_of(sc) is not _root_of(ec):
        raise Undecided('surroundContents over parentless text')
    if new.is_ancestor_or_self_of(sc):
        e.codes = {HIERARCHY}
        e.cls = 'surround-hierarchy-error'
        return e
    if sc.t in (TEXT, CDATA) and (not (0 < so < len(sc.data)) or (sc is ec)):
        # after extractContents the start sits at an edge of the (shortened) text node, where splitting is not specified
        raise Undecided('surroundContents starting inside text')
    if any(x.ro for x in _rg_nodes_touched(v)) or rs.ro:
        raise Undecided('surroundContents over read-only content')
    if KID_OK.get(rs.t) is None or ELEMENT not in KID_OK[rs.t]:
        # DOMRangeImpl::surroundContents extracts the contents BEFORE insertNode finds out that newParent cannot go there
        e.codes = {HIERARCHY}
        e.cls = 'surround-hierarchy-error'
        return e
    if rs.t == DOC:
        raise Undecided('surroundContents directly under a document')
    frag = _rg_contents(self, v, 'extract', Exp())
    e2 = Exp()
    _rg_insert(self, v, new, e2)
    if e2.codes:
        raise Undecided('surroundContents: insertion refused')
    for k in list(frag.kids):
        frag.kids.remove(k); k.parent = None
        self._attach(new, k, None)
    v.sc = v.ec = new.parent
    v.so = new.index()
    v.eo = v.so + 1
    e.cls = 'surround'
    return e


Model.op_mkIter = _op_mkIter
Model.op_mkWalker = _op_mkWalker
Model.op_it = _op_it
Model.op_tw = _op_tw
Model.op_mkList = _op_mkList
Model.op_list = _op_list
Model.op_mkMap = _op_mkMap
Model.op_map = _op_map
Model.op_mkRange = _op_mkRange
Model.op_rg = _op_rg

# signatures of the view operations (v: view number, w: word); sub-operations refine the tail
SIG.update({'mkIter': 'vniib', 'mkWalker': 'vniib', 'it': 'vw', 'tw': 'vw', 'mkList': 'vwnss', 'list': 'vw', 'mkMap': 'vn', 'map': 'vw',
            'mkRange': 'vd', 'rg': 'vw'})
SUBSIG = {
    ('tw', 'set'): 'n', ('list', 'item'): 'i', ('map', 'get'): 's', ('map', 'getNS'): 'ss',
    ('rg', 'setStart'): 'ni', ('rg', 'setEnd'): 'ni', ('rg', 'setStartBefore'): 'n', ('rg', 'setStartAfter'): 'n', ('rg', 'setEndBefore'): 'n',
    ('rg', 'setEndAfter'): 'n', ('rg', 'selectNode'): 'n', ('rg', 'selectNodeContents'): 'n', ('rg', 'collapse'): 'b', ('rg', 'cmp'): 'iv',
    ('rg', 'insertNode'): 'n', ('rg', 'surround'): 'n', ('rg', 'cloneRange'): 'v',
}


def sig_for(name, args):
    sig = SIG[name]
    if name in ('tw', 'list', 'map', 'rg', 'it') and len(args) > 1:
        sig = sig + SUBSIG.get((name, args[1]), '')
    return sig
