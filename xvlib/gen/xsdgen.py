"""xsdgen / xsdref: a typed model of an XML Schema 1.0 subset, a renderer to .xsd documents, an instance model with
serialiser and generators, and a reference validator (xsdref) that implements the XSD 1.0 (Second Edition) Structures
validation rules for exactly the constructs the generator emits.

Content models are matched with Brzozowski derivatives over particle leaves; occurrence ranges are kept as counters
(('rep', r, min, max)), never unfolded.  A second, independent matcher (set of end positions, naive recursion) exists for
self-checks of the reference (`naive_match`).

Generated schemas are UPA-clean by construction: inside one content model (including everything a derived type adds and
every member of a substitution group) no two particles can match the same expanded name, and a wildcard never admits the
namespace of an element particle of the same content model.  Hence every child matches at most one leaf, independent of
position, and the leaf for a name can be looked up in a table (Type.table)."""
import re
from decimal import Decimal

XS = 'http://www.w3.org/2001/XMLSchema'
XSI = 'http://www.w3.org/2001/XMLSchema-instance'
T = 'urn:t'
U = 'urn:u'
O = 'urn:o'
PFX = {T: 't', U: 'u', O: 'o', XSI: 'xsi', XS: 'xs'}
UNB = None      # unbounded


# =====================================================================================================================
#  simple types (only what the structure tests need; the datatype property C09 has its own, much larger reference)
# =====================================================================================================================
class SType:
    simple = True
    abstract = False
    block = frozenset()

    def __init__(self, ns, name, base, kind=None, ws=None, enum=None, lo=None, hi=None):
        self.ns, self.name, self.base = ns, name, base
        self.kind = kind or (base.kind if base is not None and base.simple else None)
        self.ws = ws or (base.ws if base is not None and base.simple else 'preserve')
        self.enum, self.lo, self.hi = enum, lo, hi
        self.anon = name is None
        self.method = 'restriction'

    @property
    def key(self):
        return (self.ns, self.name)

    def __repr__(self):
        return 'SType(%s)' % (self.name,)


def ws_apply(mode, s):
    if mode == 'preserve':
        return s
    s = s.replace('\t', ' ').replace('\n', ' ').replace('\r', ' ')
    if mode == 'replace':
        return s
    return ' '.join(x for x in s.split(' ') if x)


_dec_re = re.compile(r'^[+-]?(\d+(\.\d*)?|\.\d+)$')
_int_re = re.compile(r'^[+-]?\d+$')


def st_value(st, s):
    """(ok, value): lexical -> value space of simple type st, all facets of the derivation chain applied"""
    v = ws_apply(st.ws, s)
    k = st.kind
    if k == 'string':
        val = v
    elif k == 'decimal':
        if not _dec_re.match(v):
            return False, None
        val = Decimal(v)
    elif k == 'integer':
        if not _int_re.match(v):
            return False, None
        val = Decimal(v)
    elif k == 'boolean':
        if v not in ('true', 'false', '1', '0'):
            return False, None
        val = v in ('true', '1')
    elif k == 'any':
        val = v
    elif k == 'date':
        val = date_value(v)
        if val is None:
            return False, None
    elif k == 'QName':
        val = qname_value(v)
        if val is None:
            return False, None
    else:
        raise ValueError(k)
    t = st
    while t is not None and t.simple:
        if t.lo is not None and val < t.lo:
            return False, None
        if t.hi is not None and val > t.hi:
            return False, None
        if t.enum is not None:
            vals = [st_value(t.base, e)[1] for e in t.enum]
            if val not in vals:
                return False, None
        t = t.base
    return True, val


_date_re = re.compile(r'^(-?)(\d{4,})-(\d\d)-(\d\d)(Z|[+-]\d\d:\d\d)?$')


def date_value(v):
    """xs:date value for identity comparison: dates with a time zone are points on the UTC time line (start instant),
    dates without are local; the two kinds are never equal (only years 0001..9999, which is all the workloads use)"""
    m = _date_re.match(v)
    if not m or m.group(1) or len(m.group(2)) != 4:
        return None
    y, mo, d = int(m.group(2)), int(m.group(3)), int(m.group(4))
    if y < 1 or not (1 <= mo <= 12):
        return None
    dim = [31, 29 if (y % 4 == 0 and (y % 100 != 0 or y % 400 == 0)) else 28, 31, 30, 31, 30, 31, 31, 30, 31, 30, 31][mo - 1]
    if not (1 <= d <= dim):
        return None
    import datetime
    days = datetime.date(y, mo, d).toordinal()
    tz = m.group(5)
    if tz is None:
        return ('local', days)
    if tz == 'Z':
        off = 0
    else:
        hh, mm = int(tz[1:3]), int(tz[4:6])
        if hh > 14 or mm > 59 or (hh == 14 and mm != 0):
            return None
        off = (hh * 60 + mm) * (1 if tz[0] == '+' else -1)
    return ('utc', days * 1440 - off)


QNAME_PREFIXES = {'t': T, 't2': T, 'u': U, 'o': O}


def qname_value(v):
    """xs:QName value under the fixed namespace bindings every generated instance declares on its root"""
    if ':' in v:
        p, l = v.split(':', 1)
        if p not in QNAME_PREFIXES or not re.match(r'^[A-Za-z_][A-Za-z0-9_.-]*$', l):
            return None
        return (QNAME_PREFIXES[p], l)
    if not re.match(r'^[A-Za-z_][A-Za-z0-9_.-]*$', v):
        return None
    return (None, v)


# =====================================================================================================================
#  components
# =====================================================================================================================
class ADecl:
    def __init__(self, ns, local, type, glob=False):
        self.ns, self.local, self.type, self.glob = ns, local, type, glob

    @property
    def key(self):
        return (self.ns, self.local)


class AUse:
    def __init__(self, decl, use='optional', default=None, fixed=None):
        self.decl, self.use, self.default, self.fixed = decl, use, default, fixed


class EDecl:
    def __init__(self, ns, local, type, glob=False, nillable=False, abstract=False, subst=None, block=frozenset(),
                 default=None, fixed=None, notype=False):
        self.ns, self.local, self.type, self.glob = ns, local, type, glob
        self.nillable, self.abstract, self.subst, self.block = nillable, abstract, subst, frozenset(block)
        self.default, self.fixed = default, fixed
        self.notype = notype          # rendered without a type attribute (takes the type of its substitution head)
        self.ics = []                 # identity constraints (C10)

    @property
    def key(self):
        return (self.ns, self.local)

    def __repr__(self):
        return 'EDecl(%s)' % (self.local,)


def nsc_allows(nsc, ns):
    """Wildcard allows Namespace Name (3.10.4)"""
    if nsc[0] == 'any':
        return True
    if nsc[0] == 'other':
        return ns is not None and ns != nsc[1]
    return ns in nsc[1]


def nsc_union(a, b):
    """Attribute Wildcard Union (3.10.6) restricted to the cases that are expressible in every edition; None otherwise"""
    if a[0] == 'any' or b[0] == 'any':
        return ('any',)
    if a[0] == 'set' and b[0] == 'set':
        return ('set', frozenset(a[1]) | frozenset(b[1]))
    if a[0] == 'other' and b[0] == 'other':
        return a if a[1] == b[1] else None
    o, st = (a, b) if a[0] == 'other' else (b, a)
    if o[1] in st[1] and None in st[1]:
        return ('any',)
    if o[1] not in st[1] and None not in st[1]:
        return o
    return None


def nsc_split(nsc, tns, r, kind=None):
    """two namespace constraints (A, B) whose intersection (Attribute Wildcard Intersection, 3.10.6) is nsc;
    kind in ('sets', 'any', 'other-absent', 'other-tns', 'other-both') forces the shape where it applies"""
    pool = [None, tns, U, O, 'urn:x3']
    if nsc[0] == 'any':
        return ('any',), ('any',)
    if nsc[0] == 'other':
        return r.choice([(nsc, ('any',)), (('any',), nsc), (nsc, nsc)])
    S = frozenset(nsc[1])
    opts = ['sets', 'any']
    if None not in S and tns not in S:
        opts += ['other', 'other']
    k = r.choice(opts)
    extra_forced = None
    if kind in ('sets', 'any') or (kind and kind.startswith('other') and 'other' in opts):
        k = kind.split('-')[0]
        extra_forced = {'other-absent': frozenset([None]), 'other-tns': frozenset([tns]), 'other-both': frozenset([None, tns])}.get(kind)
    if k == 'any':
        return r.choice([(('any',), nsc), (nsc, ('any',))])
    if k == 'other':
        # not(tns) loses the negated namespace AND absent from the set
        extra = r.choice([frozenset([None]), frozenset([tns]), frozenset([None, tns])])
        if extra_forced is not None:
            extra = extra_forced
        st = ('set', S | extra)
        return r.choice([(('other', tns), st), (st, ('other', tns))])
    rest = [x for x in pool if x not in S]
    r.shuffle(rest)
    n1 = r.randint(0, len(rest))
    n2 = r.randint(n1, len(rest))
    return ('set', S | frozenset(rest[:n1])), ('set', S | frozenset(rest[n1:n2]))


class CType:
    simple = False

    def __init__(self, ns, name, base=None, method='restriction', abstract=False, block=frozenset(), mixed=False,
                 own_particle=None, own_attrs=(), own_anyattr=None, simple_base=None):
        self.ns, self.name = ns, name
        self.base = base if base is not None else ANYTYPE
        self.method = method
        self.abstract, self.block, self.mixed = abstract, frozenset(block), mixed
        self.own_particle, self.own_attrs, self.own_anyattr = own_particle, list(own_attrs), own_anyattr
        self.simple_base = simple_base          # simple content: <extension base=simple type> directly
        self.anon = name is None
        self.finalized = False
        self.render_hints = {}

    @property
    def key(self):
        return (self.ns, self.name)

    def __repr__(self):
        return 'CType(%s)' % (self.name,)

    def finalize(self, schema):
        """compute the effective {content type}, {attribute uses} and {attribute wildcard} (3.4.2)"""
        if self.finalized:
            return
        self.finalized = True
        b = self.base
        if self is ANYTYPE:
            return
        if not b.simple:
            b.finalize(schema)
        self.stype = None
        if self.simple_base is not None:
            # <simpleContent><extension base="simple type">
            self.base, self.method = self.simple_base, 'extension'
            self.content, self.stype, self.particle = 'simple', self.simple_base, None
            base_attrs, base_any = {}, None
        elif b is ANYTYPE:
            self.particle = self.own_particle
            self.content = 'elements' if self.particle is not None else 'empty'
            base_attrs, base_any = {}, None
        elif self.method == 'extension':
            base_attrs, base_any = b.attrs, b.anyattr
            if b.content == 'simple':
                self.content, self.stype, self.particle = 'simple', b.stype, None
            else:
                if b.particle is not None and self.own_particle is not None:
                    self.particle = ('seq', [b.particle, self.own_particle], 1, 1)
                else:
                    self.particle = b.particle if b.particle is not None else self.own_particle
                self.content = 'elements' if self.particle is not None else 'empty'
        else:
            base_attrs, base_any = b.attrs, None      # a restriction's wildcard is only the one it restates
            if b.content == 'simple':
                raise ValueError('restriction of simple content is outside the modelled subset')
            self.particle = self.own_particle
            self.content = 'elements' if self.particle is not None else 'empty'
        attrs = dict(base_attrs)
        for u in self.own_attrs:
            if u.use == 'prohibited':
                attrs.pop(u.decl.key, None)
            else:
                attrs[u.decl.key] = u
        self.attrs = attrs
        if self.method == 'extension' and not self.base.simple:
            if self.own_anyattr is not None and base_any is not None:
                # complete wildcard of an extension: union of the namespace constraints, {process contents} of the local one
                un = nsc_union(self.own_anyattr[0], base_any[0])
                if un is None:
                    raise ValueError('attribute wildcard union outside the modelled subset')
                self.anyattr = (un, self.own_anyattr[1])
            else:
                self.anyattr = self.own_anyattr if self.own_anyattr is not None else base_any
        else:
            self.anyattr = self.own_anyattr
        self._build_table(schema)

    def _build_table(self, schema):
        """leaf table: expanded name -> (leaf id, particle's declaration, actual declaration); wildcard leaves"""
        self.table = {}
        self.wild = []
        self.leaves = []

        def walk(p):
            if p is None:
                return
            if p[0] == 'e':
                lid = len(self.leaves)
                self.leaves.append(p)
                d = p[1]
                cands = [d] + (schema.substitutable(d) if d.glob else [])
                for c in cands:
                    if c.key in self.table:
                        raise ValueError('content model of %r is not UPA-clean: %r twice' % (self.name, c.key))
                    self.table[c.key] = (lid, d, c)
            elif p[0] == 'any':
                lid = len(self.leaves)
                self.leaves.append(p)
                self.wild.append((lid, p[1], p[2]))
            else:
                for x in p[1]:
                    walk(x)
        walk(self.particle)
        self.regex = to_regex(self.particle, self)
        u = upa_check(self)
        if u is not True:
            raise ValueError('content model of %r is not UPA-clean (%r)' % (self.name, u))

    def candidates(self, ns, local):
        """leaves whose name test accepts the expanded name: [('e', lid, particle decl, actual decl) | ('any', lid, pc)].
        Which of them consumes a child depends on the position (decided by the matcher); in a UPA-clean model it is unique."""
        out = []
        t = self.table.get((ns, local))
        if t is not None:
            out.append(('e',) + t)
        for (lid, nsc, pc) in self.wild:
            if nsc_allows(nsc, ns):
                out.append(('any', lid, pc))
        return out


def upa_check(t, limit=6000):
    """Unique Particle Attribution by exploring every reachable derivative state: no state may offer two different leaves
    whose name tests overlap.  True | description of the conflict | None (state budget exceeded)"""
    leaves = t.leaves
    names = {}
    for key, (lid, d, c) in t.table.items():
        names.setdefault(lid, []).append(key)

    def overlap(l1, l2):
        p1, p2 = leaves[l1], leaves[l2]
        if p1[0] == 'e' and p2[0] == 'e':
            return bool(set(names.get(l1, [])) & set(names.get(l2, [])))
        if p1[0] == 'e' or p2[0] == 'e':
            e, w = (l1, p2) if p1[0] == 'e' else (l2, p1)
            return any(nsc_allows(w[1], k[0]) for k in names.get(e, []))
        return any(nsc_allows(p1[1], ns) and nsc_allows(p2[1], ns) for ns in (T, U, O, None, 'urn:zz'))
    seen = {t.regex}
    todo = [t.regex]
    while todo:
        r = todo.pop()
        firsts = []
        for lid in range(len(leaves)):
            d = deriv(r, lid)
            if d != VOID:
                firsts.append((lid, d))
        for i in range(len(firsts)):
            for j in range(i + 1, len(firsts)):
                if overlap(firsts[i][0], firsts[j][0]):
                    return 'leaves %d and %d compete' % (firsts[i][0], firsts[j][0])
        for lid, d in firsts:
            if d not in seen:
                seen.add(d)
                todo.append(d)
                if len(seen) > limit:
                    return None
    return True


ANYTYPE = CType.__new__(CType)
ANYTYPE.ns, ANYTYPE.name, ANYTYPE.base, ANYTYPE.method = XS, 'anyType', None, 'restriction'
ANYTYPE.abstract, ANYTYPE.block, ANYTYPE.mixed, ANYTYPE.anon = False, frozenset(), True, False
ANYTYPE.content, ANYTYPE.stype = 'elements', None
ANYTYPE.particle = ('any', ('any',), 'lax', 0, UNB)
ANYTYPE.attrs, ANYTYPE.anyattr = {}, (('any',), 'lax')
ANYTYPE.table, ANYTYPE.wild, ANYTYPE.leaves = {}, [(0, ('any',), 'lax')], [ANYTYPE.particle]
ANYTYPE.finalized = True
ANYTYPE.regex = ('rep', ('sym', 0), 0, None)
ANYTYPE.own_particle, ANYTYPE.own_attrs, ANYTYPE.own_anyattr, ANYTYPE.simple_base = None, [], None, None

ANYSIMPLE = SType(XS, 'anySimpleType', ANYTYPE, kind='any', ws='preserve')
B = {}


def _mk_builtins():
    def add(name, base, **kw):
        B[name] = SType(XS, name, base, **kw)
        return B[name]
    B['anySimpleType'] = ANYSIMPLE
    s = add('string', ANYSIMPLE, kind='string', ws='preserve')
    ns_ = add('normalizedString', s, ws='replace')
    add('token', ns_, ws='collapse')
    d = add('decimal', ANYSIMPLE, kind='decimal', ws='collapse')
    i = add('integer', d, kind='integer')
    lg = add('long', i, lo=Decimal(-2 ** 63), hi=Decimal(2 ** 63 - 1))
    add('int', lg, lo=Decimal(-2 ** 31), hi=Decimal(2 ** 31 - 1))
    add('boolean', ANYSIMPLE, kind='boolean', ws='collapse')
    add('date', ANYSIMPLE, kind='date', ws='collapse')
    add('QName', ANYSIMPLE, kind='QName', ws='collapse')


_mk_builtins()


def derivation_ok(d, b, blocked):
    """Type Derivation OK (Complex 3.4.6 / Simple 3.14.6): d validly derived from b given the set `blocked`.
    Only the cases that occur here: chains of named types ending in anyType."""
    if d is b:
        return True
    t = d
    while t is not None and t is not b:
        if t.method in blocked:
            return False
        if t is ANYTYPE:
            return False
        t = t.base
    return t is b


# =====================================================================================================================
#  content model matching
# =====================================================================================================================
EPS = ('eps',)
VOID = ('void',)


def _cat(items):
    out = []
    for x in items:
        if x == VOID:
            return VOID
        if x == EPS:
            continue
        if x[0] == 'cat':
            out.extend(x[1])
        else:
            out.append(x)
    if not out:
        return EPS
    return out[0] if len(out) == 1 else ('cat', tuple(out))


def _or(items):
    out = []
    for x in items:
        if x == VOID:
            continue
        if x[0] == 'or':
            for y in x[1]:
                if y not in out:
                    out.append(y)
        elif x not in out:
            out.append(x)
    if not out:
        return VOID
    return out[0] if len(out) == 1 else ('or', tuple(out))


def _rep(r, mn, mx):
    if mx == 0:
        return EPS
    if r == EPS:
        return EPS
    if r == VOID:
        return EPS if mn == 0 else VOID
    if mn == 1 and mx == 1:
        return r
    return ('rep', r, mn, mx)


def to_regex(p, ctype):
    """particle -> regex over leaf ids (position of the leaf in ctype.leaves)"""
    counter = [0]

    def conv(p):
        if p is None:
            return EPS
        k = p[0]
        if k in ('e', 'any'):
            lid = counter[0]
            counter[0] += 1
            mn, mx = p[-2], p[-1]
            return _rep(('sym', lid), mn, mx)
        subs = [conv(x) for x in p[1]]
        mn, mx = p[2], p[3]
        if k == 'seq':
            return _rep(_cat(subs), mn, mx)
        if k == 'choice':
            return _rep(_or(subs) if subs else EPS, mn, mx)
        if k == 'all':
            items = []
            for x, s in zip(p[1], subs):
                # children of all are element particles with max 1: regex is sym or rep(sym,0,1)
                if s == EPS:
                    continue
                if s[0] == 'sym':
                    items.append((s[1], True))
                else:
                    items.append((s[1][1], False))
            return ('all', frozenset(items), False, mn == 0)
        raise ValueError(k)
    return conv(p)


def nullable(r):
    k = r[0]
    if k == 'eps':
        return True
    if k in ('void', 'sym'):
        return False
    if k == 'cat':
        return all(nullable(x) for x in r[1])
    if k == 'or':
        return any(nullable(x) for x in r[1])
    if k == 'rep':
        return r[2] == 0 or nullable(r[1])
    if k == 'all':
        return (not r[2] and r[3]) or all(not req for (_, req) in r[1])
    raise ValueError(k)


_dcache = {}


def deriv(r, a):
    key = (r, a)
    v = _dcache.get(key)
    if v is None:
        if len(_dcache) > 400000:
            _dcache.clear()
        v = _dcache[key] = _deriv(r, a)
    return v


def _deriv(r, a):
    k = r[0]
    if k in ('eps', 'void'):
        return VOID
    if k == 'sym':
        return EPS if r[1] == a else VOID
    if k == 'or':
        return _or([deriv(x, a) for x in r[1]])
    if k == 'cat':
        items = r[1]
        out = []
        for i, x in enumerate(items):
            d = deriv(x, a)
            if d != VOID:
                out.append(_cat((d,) + items[i + 1:]))
            if not nullable(x):
                break
        return _or(out)
    if k == 'rep':
        d = deriv(r[1], a)
        if d == VOID:
            return VOID
        mn, mx = r[2], r[3]
        return _cat([d, _rep(r[1], max(mn - 1, 0), None if mx is None else mx - 1)])
    if k == 'all':
        for it in r[1]:
            if it[0] == a:
                return ('all', r[1] - {it}, True, r[3])
        return VOID
    raise ValueError(k)


def regex_match(regex, leafseq):
    """leafseq: per child either a leaf id or a collection of candidate leaf ids"""
    r = regex
    for a in leafseq:
        if isinstance(a, int):
            r = deriv(r, a)
        else:
            r = _or([deriv(r, x) for x in a])
        if r == VOID:
            return False
    return nullable(r)


def naive_match(p, leafseq, ctype=None):
    """independent matcher: set of reachable end positions by structural recursion on the particle itself"""
    counter = [0]
    ids = {}

    def number(p):
        if p is None:
            return
        if p[0] in ('e', 'any'):
            ids[id(p)] = counter[0]
            counter[0] += 1
        else:
            for x in p[1]:
                number(x)
    number(p)
    n = len(leafseq)

    def once(p, i):
        k = p[0]
        if k in ('e', 'any'):
            return {i + 1} if i < n and (leafseq[i] == ids[id(p)] if isinstance(leafseq[i], int) else ids[id(p)] in leafseq[i]) else set()
        if k == 'seq':
            cur = {i}
            for x in p[1]:
                nxt = set()
                for j in cur:
                    nxt |= ends(x, j)
                cur = nxt
                if not cur:
                    break
            return cur
        if k == 'choice':
            out = set()
            for x in p[1]:
                out |= ends(x, i)
            return out
        if k == 'all':
            # any order, each child at most once, all required ones present
            out = set()

            def rec(j, used):
                if all((ids[id(x)] in used) or x[2] == 0 for x in p[1]):
                    out.add(j)
                if j < n:
                    for x in p[1]:
                        lid = ids[id(x)]
                        if lid not in used and (leafseq[j] == lid if isinstance(leafseq[j], int) else lid in leafseq[j]) and x[3] != 0:
                            rec(j + 1, used | {lid})
            rec(i, frozenset())
            return out
        raise ValueError(k)

    def ends(p, i):
        mn, mx = p[-2], p[-1]
        if p[0] == 'all':
            res = once(p, i)
            if mn == 0:
                res = res | {i}
            return res
        res = set()
        cur = {i}
        count = 0
        if mn == 0:
            res |= cur
        seen = set()
        while cur and (mx is None or count < mx):
            nxt = set()
            for j in cur:
                nxt |= once(p, j)
            count += 1
            if count >= mn:
                res |= nxt
            state = (frozenset(nxt), min(count, mn))
            if mx is None and state in seen:
                break
            seen.add(state)
            cur = nxt
        return res
    if p is None:
        return n == 0
    return n in ends(p, 0)


# =====================================================================================================================
#  schema
# =====================================================================================================================
class Schema:
    def __init__(self, tns, efd):
        self.tns, self.efd = tns, efd
        self.types = {}       # (ns, name) -> type   (named, both namespaces, plus used built-ins)
        self.elems = {}       # (ns, local) -> EDecl (global)
        self.gattrs = {}      # (ns, local) -> ADecl (global)
        self.order = []       # rendering order of named components of the main document: ('type'|'elem'|'attr', obj)
        self.uorder = []      # ... of the urn:u document
        self.groupdefs = {}   # id(particle) -> (group name, particle): rendered as a named model group + reference
        self.attgroups = []   # (name, [AUse]) : rendered as attributeGroup, referenced from types through render_hints
        self.split = False    # render some components into an <include>d second document
        self._subst = {}
        for b in B.values():
            self.types[b.key] = b
        self.types[ANYTYPE.key] = ANYTYPE

    def add_type(self, t, doc='main'):
        self.types[t.key] = t
        (self.order if doc == 'main' else self.uorder).append(('type', t))
        return t

    def add_elem(self, e, doc='main'):
        self.elems[e.key] = e
        (self.order if doc == 'main' else self.uorder).append(('elem', e))
        return e

    def add_gattr(self, a, doc='main'):
        self.gattrs[a.key] = a
        (self.order if doc == 'main' else self.uorder).append(('attr', a))
        return a

    def finalize(self):
        self._subst = {}
        for k, (kind, o) in enumerate(self.order + self.uorder):
            if kind == 'type' and not o.simple:
                o.finalized = False
        # anonymous types hang off declarations: collect them through the particles
        seen = set()

        def fin_type(t):
            if t is None or t.simple or t is ANYTYPE or id(t) in seen:
                return
            seen.add(id(t))
            t.finalized = False
            if not t.base.simple:
                fin_type(t.base)
            for d in particle_decls(t.own_particle):
                fin_type(d.type)
            t.finalize(self)
        for e in list(self.elems.values()):
            fin_type(e.type)
        for t in list(self.types.values()):
            fin_type(t)

    def members(self, head):
        return [e for e in self.elems.values() if e.subst is head]

    def substitutable(self, head):
        """declarations (other than head) validly substitutable for head, blocking constraint = head's
        {disallowed substitutions} (3.3.6 Substitution Group OK (Transitive))"""
        if id(head) in self._subst:
            return self._subst[id(head)]
        out = []
        if 'substitution' not in head.block:
            todo = list(self.members(head))
            while todo:
                m = todo.pop(0)
                todo.extend(self.members(m))
                if subst_type_ok(m.type, head.type, head.block):
                    out.append(m)
        self._subst[id(head)] = out
        return out

    def all_members(self, head):
        out = []
        todo = list(self.members(head))
        while todo:
            m = todo.pop(0)
            out.append(m)
            todo.extend(self.members(m))
        return out


def subst_type_ok(dt, ct, blocking):
    """clause 2.3: derivation methods from ct to dt must not meet blocking + {prohibited substitutions} of ct and
    of every intermediate type"""
    methods = set()
    blocked = set(blocking) & {'extension', 'restriction'}
    t = dt
    while t is not ct:
        if t is None or t is ANYTYPE:
            return False
        methods.add(t.method)
        t = t.base
        if t is not None and not t.simple:
            blocked |= t.block
    return not (methods & blocked)


def particle_decls(p):
    if p is None:
        return []
    if p[0] == 'e':
        return [p[1]]
    if p[0] == 'any':
        return []
    out = []
    for x in p[1]:
        out += particle_decls(x)
    return out


# =====================================================================================================================
#  rendering to schema documents
# =====================================================================================================================
def xa(s):
    return s.replace('&', '&amp;').replace('<', '&lt;').replace('"', '&quot;')


class Renderer:
    def __init__(self, schema):
        self.s = schema

    def q(self, ns, local):
        if ns is None:
            return local
        return PFX[ns] + ':' + local

    def tq(self, t):
        return self.q(t.ns, t.name)

    def occ(self, mn, mx):
        s = ''
        if mn != 1:
            s += ' minOccurs="%d"' % mn
        if mx != 1:
            s += ' maxOccurs="%s"' % ('unbounded' if mx is None else mx)
        return s

    def nsc(self, nsc, doc_tns):
        if nsc[0] == 'any':
            return '##any'
        if nsc[0] == 'other':
            assert nsc[1] == doc_tns
            return '##other'
        out = []
        for ns in sorted(nsc[1], key=lambda x: x or ''):
            if ns is None:
                out.append('##local')
            elif ns == doc_tns:
                out.append('##targetNamespace')
            else:
                out.append(ns)
        return ' '.join(out)

    def elem_attrs(self, d, doc_tns):
        s = ''
        if d.nillable:
            s += ' nillable="true"'
        if d.block:
            s += ' block="%s"' % ' '.join(sorted(d.block))
        if d.default is not None:
            s += ' default="%s"' % xa(d.default)
        if d.fixed is not None:
            s += ' fixed="%s"' % xa(d.fixed)
        return s

    def ics(self, d):
        return ''.join(ic.render(self) for ic in d.ics)

    def elem_body(self, d, head, doc_tns):
        """head: '<xs:element name=.. ...' without closing"""
        t = d.type
        if d.notype:
            inner = ''
        elif t.anon:
            inner = self.type_def(t, doc_tns, named=False)
        else:
            head += ' type="%s"' % self.tq(t)
            inner = ''
        inner += self.ics(d)
        return head + ('>%s</xs:element>' % inner if inner else '/>')

    def particle(self, p, doc_tns, top=False):
        k = p[0]
        if k == 'e':
            d = p[1]
            if d.glob:
                return '<xs:element ref="%s"%s/>' % (self.q(d.ns, d.local), self.occ(p[2], p[3]))
            head = '<xs:element name="%s"%s%s' % (d.local, self.occ(p[2], p[3]), self.elem_attrs(d, doc_tns))
            want_q = d.ns is not None
            if want_q != (self.s.efd and doc_tns is not None):
                head += ' form="%s"' % ('qualified' if want_q else 'unqualified')
            return self.elem_body(d, head, doc_tns)
        if k == 'any':
            return '<xs:any namespace="%s" processContents="%s"%s/>' % (self.nsc(p[1], doc_tns), p[2], self.occ(p[3], p[4]))
        g = self.s.groupdefs.get(id(p))
        if g:
            return '<xs:group ref="%s"%s/>' % (self.q(doc_tns, g[0]), self.occ(p[2], p[3]))
        tag = {'seq': 'sequence', 'choice': 'choice', 'all': 'all'}[k]
        return '<xs:%s%s>%s</xs:%s>' % (tag, self.occ(p[2], p[3]), ''.join(self.particle(x, doc_tns) for x in p[1]), tag)

    def group_defs(self, doc_tns):
        out = []
        for pid, (gname, p) in self.s.groupdefs.items():
            tag = {'seq': 'sequence', 'choice': 'choice', 'all': 'all'}[p[0]]
            out.append('<xs:group name="%s"><xs:%s>%s</xs:%s></xs:group>' % (gname, tag, ''.join(self.particle(x, doc_tns) for x in p[1]), tag))
        return out

    def attr_use(self, u, doc_tns):
        d = u.decl
        s = ''
        if u.use != 'optional':
            s += ' use="%s"' % u.use
        if u.default is not None:
            s += ' default="%s"' % xa(u.default)
        if u.fixed is not None:
            s += ' fixed="%s"' % xa(u.fixed)
        if d.glob:
            return '<xs:attribute ref="%s"%s/>' % (self.q(d.ns, d.local), s)
        form = ' form="qualified"' if d.ns is not None else ''
        return '<xs:attribute name="%s" type="%s"%s%s/>' % (d.local, self.tq(d.type), form, s)

    def attrs(self, t, doc_tns):
        out = []
        grouped = t.render_hints.get('attgroup')
        if grouped:
            out.append('<xs:attributeGroup ref="%s"/>' % self.q(doc_tns, grouped))
        else:
            out += [self.attr_use(u, doc_tns) for u in t.own_attrs]
        split = t.render_hints.get('anysplit')      # (group name, B): the local wildcard is B, the group carries A; A ^ B = own_anyattr
        if split and t.own_anyattr is not None:
            out.append('<xs:attributeGroup ref="%s"/>' % self.q(doc_tns, split[0]))
            out.append('<xs:anyAttribute namespace="%s" processContents="%s"/>' % (self.nsc(split[1], doc_tns), t.own_anyattr[1]))
        elif t.own_anyattr is not None and not (grouped and t.render_hints.get('attgroup_any')):
            out.append('<xs:anyAttribute namespace="%s" processContents="%s"/>' % (self.nsc(t.own_anyattr[0], doc_tns), t.own_anyattr[1]))
        return ''.join(out)

    def type_def(self, t, doc_tns, named=True):
        if t.simple:
            head = '<xs:simpleType%s>' % (' name="%s"' % t.name if named else '')
            f = ''
            for e in (t.enum or []):
                f += '<xs:enumeration value="%s"/>' % xa(e)
            if t.lo is not None:
                f += '<xs:minInclusive value="%s"/>' % t.lo
            if t.hi is not None:
                f += '<xs:maxInclusive value="%s"/>' % t.hi
            return head + '<xs:restriction base="%s">%s</xs:restriction></xs:simpleType>' % (self.tq(t.base), f)
        a = ''
        if named:
            a += ' name="%s"' % t.name
        if t.abstract:
            a += ' abstract="true"'
        if t.block:
            a += ' block="%s"' % ' '.join(sorted(t.block))
        if t.mixed:
            a += ' mixed="true"'
        part = self.particle(t.own_particle, doc_tns, top=True) if t.own_particle is not None else ''
        if part.startswith('<xs:element') or part.startswith('<xs:any'):
            part = '<xs:sequence>%s</xs:sequence>' % part
        body = part + self.attrs(t, doc_tns)
        if t.simple_base is not None:
            inner = '<xs:simpleContent><xs:extension base="%s">%s</xs:extension></xs:simpleContent>' % (self.tq(t.simple_base), self.attrs(t, doc_tns))
        elif t.base is ANYTYPE and not t.render_hints.get('explicit_anytype'):
            inner = body
        else:
            cc = 'simpleContent' if (not t.base.simple and t.base.content == 'simple') else 'complexContent'
            base = self.tq(t.base)
            inner = '<xs:%s><xs:%s base="%s">%s</xs:%s></xs:%s>' % (cc, t.method, base, body, t.method, cc)
        return '<xs:complexType%s>%s</xs:complexType>' % (a, inner)

    def global_elem(self, d, doc_tns):
        head = '<xs:element name="%s"%s' % (d.local, self.elem_attrs(d, doc_tns))
        if d.abstract:
            head += ' abstract="true"'
        if d.subst is not None:
            head += ' substitutionGroup="%s"' % self.q(d.subst.ns, d.subst.local)
        return self.elem_body(d, head, doc_tns)

    def component(self, kind, o, doc_tns):
        if kind == 'type':
            return self.type_def(o, doc_tns)
        if kind == 'elem':
            return self.global_elem(o, doc_tns)
        if kind == 'attr':
            return '<xs:attribute name="%s" type="%s"/>' % (o.local, self.tq(o.type))
        raise ValueError(kind)

    def schema_open(self, tns, efd):
        s = '<xs:schema xmlns:xs="%s"' % XS
        if tns is not None:
            s += ' targetNamespace="%s"' % tns
        for ns in (T, U):
            s += ' xmlns:%s="%s"' % (PFX[ns], ns)
        if efd and tns is not None:
            s += ' elementFormDefault="qualified"'
        return s + '>'

    def documents(self):
        """[(file name, bytes)] ; the first is the main document"""
        s = self.s
        docs = []
        main = [self.schema_open(s.tns, s.efd)]
        main.append('<xs:import namespace="%s" schemaLocation="u.xsd"/>' % U)
        comps = [self.component(k, o, s.tns) for k, o in s.order]
        comps += self.group_defs(s.tns)
        for (name, uses, anyattr) in s.attgroups:
            aa = ''
            if anyattr is not None:
                aa = '<xs:anyAttribute namespace="%s" processContents="%s"/>' % (self.nsc(anyattr[0], s.tns), anyattr[1])
            comps.append('<xs:attributeGroup name="%s">%s%s</xs:attributeGroup>' % (name, ''.join(self.attr_use(u, s.tns) for u in uses), aa))
        if s.split and len(comps) > 2:
            # every second component goes to an included document (forward and backward references across documents)
            inc = [self.schema_open(s.tns, s.efd)] + comps[1::2] + ['</xs:schema>']
            main.append('<xs:include schemaLocation="s2.xsd"/>')
            main += comps[0::2]
            docs.append(('s2.xsd', '\n'.join(inc).encode()))
        else:
            main += comps
        main.append('</xs:schema>')
        docs.insert(0, ('s.xsd', '\n'.join(main).encode()))
        u = [self.schema_open(U, True)]
        u += [self.component(k, o, U) for k, o in s.uorder]
        u.append('</xs:schema>')
        docs.append(('u.xsd', '\n'.join(u).encode()))
        return docs


# =====================================================================================================================
#  instances
# =====================================================================================================================
class El:
    __slots__ = ('ns', 'local', 'attrs', 'kids', 'xtype', 'nil', 'tag')

    def __init__(self, ns, local, attrs=None, kids=None, xtype=None, nil=None, tag=None):
        self.ns, self.local = ns, local
        self.attrs = list(attrs or [])      # (ns, local, value)
        self.kids = list(kids or [])        # El | str (character data) | ('c', text) comment | ('cd', text) CDATA | ('cr', n) char ref
        self.xtype = xtype                  # (ns, local) of xsi:type
        self.nil = nil                      # lexical value of xsi:nil
        self.tag = tag

    def copy(self):
        return El(self.ns, self.local, list(self.attrs), [k.copy() if isinstance(k, El) else k for k in self.kids], self.xtype, self.nil, self.tag)

    def elems(self):
        return [k for k in self.kids if isinstance(k, El)]

    def text(self):
        out = []
        for k in self.kids:
            if isinstance(k, str):
                out.append(k)
            elif isinstance(k, tuple) and k[0] == 'cd':
                out.append(k[1])
            elif isinstance(k, tuple) and k[0] == 'cr':
                out.append(chr(k[1]))
        return ''.join(out)

    def has_chars(self):
        return any(isinstance(k, str) and k != '' or (isinstance(k, tuple) and k[0] in ('cd', 'cr') and (k[0] == 'cr' or k[1] != '')) for k in self.kids)


def xt(s):
    return s.replace('&', '&amp;').replace('<', '&lt;').replace('>', '&gt;')


def qname(ns, local):
    return local if ns is None else PFX[ns] + ':' + local


def ser(el, out=None, spans=None, insert=None):
    """serialise; spans (optional dict) receives id(element) -> (start offset, end offset); insert: text placed after the
    name of the outermost start tag (namespace declarations)"""
    top = out is None
    if top:
        out = _Out()
    start = out.n
    out.append('<' + qname(el.ns, el.local))
    if insert:
        out.append(insert)
    if el.xtype is not None:
        out.append(' xsi:type="%s"' % qname(*el.xtype))
    if el.nil is not None:
        out.append(' xsi:nil="%s"' % el.nil)
    for (ns, local, v) in el.attrs:
        out.append(' %s="%s"' % (qname(ns, local), xa(v)))
    if not el.kids:
        out.append('/>')
    else:
        out.append('>')
        for k in el.kids:
            if isinstance(k, El):
                ser(k, out, spans)
            elif isinstance(k, str):
                out.append(xt(k))
            elif k[0] == 'c':
                out.append('<!--%s-->' % k[1])
            elif k[0] == 'cd':
                out.append('<![CDATA[%s]]>' % k[1])
            elif k[0] == 'cr':
                out.append('&#%d;' % k[1])
        out.append('</%s>' % qname(el.ns, el.local))
    if spans is not None:
        spans[id(el)] = (start, out.n)
    if top:
        return ''.join(out.parts)


class _Out:
    __slots__ = ('parts', 'n')

    def __init__(self):
        self.parts, self.n = [], 0

    def append(self, x):
        self.parts.append(x)
        self.n += len(x)


def ns_decls(schema):
    s = ' xmlns:xsi="%s"' % XSI
    for ns in (T, U, O, XS):
        s += ' xmlns:%s="%s"' % (PFX[ns], ns)
    s += ' xmlns:t2="%s"' % T
    if schema.tns is None:
        s += ' xsi:noNamespaceSchemaLocation="s.xsd"'
    else:
        s += ' xsi:schemaLocation="%s s.xsd"' % schema.tns
    return s


def document(schema, root_el):
    """single instance document; root carries namespace declarations and the schema location hint"""
    s = ser(root_el)
    i = len(qname(root_el.ns, root_el.local)) + 1
    return (s[:i] + ns_decls(schema) + s[i:]).encode()


def batch_document(schema, wname, instances):
    """<w> with one instance per line: line k+2 holds instance k"""
    w = qname(schema.tns, wname)
    L = ['<%s%s>' % (w, ns_decls(schema))]
    for e in instances:
        s = ser(e)
        assert '\n' not in s
        L.append(s)
    L.append('</%s>' % w)
    return '\n'.join(L).encode()


# =====================================================================================================================
#  reference validator
# =====================================================================================================================
class Node:
    """expected post-validation view of one element"""
    __slots__ = ('ns', 'local', 'type', 'attrs', 'text', 'kids', 'assessed', 'simple_text', 'adefault', 'feats', 'rules', 'el', 'ctype', 'decl', 'nilled')

    def __init__(self, ns, local):
        self.ns, self.local = ns, local
        self.type = None          # governing type definition (None: not assessed / unknown)
        self.attrs = {}           # (ns, local) -> value  (instance attributes + defaulted ones; xsi/xmlns excluded)
        self.adefault = set()     # keys of attrs that were defaulted
        self.text = None          # character content as it must be reported (only for simple content, else None)
        self.kids = []
        self.assessed = True
        self.feats = set()        # feature tags of this element alone
        self.rules = []           # rules violated at this element
        self.el = None
        self.ctype = None
        self.decl = None
        self.nilled = False


class Result:
    def __init__(self):
        self.errors = []      # rule names
        self.root = None
        self.feats = frozenset()

    @property
    def valid(self):
        return not self.errors


class _Feats:
    """adds a feature tag to the instance-wide set and to the element's own set"""
    __slots__ = ('g', 'n')

    def __init__(self, g, node):
        self.g, self.n = g, node

    def add(self, x):
        self.g.add(x)
        self.n.feats.add(x)


class _Errs:
    """appends a violated rule to the instance-wide list and to the element's own list"""
    __slots__ = ('g', 'n')

    def __init__(self, g, node):
        self.g = g.g if isinstance(g, _Errs) else g
        self.n = node

    def append(self, x):
        self.g.append(x)
        self.n.rules.append(x)


class Validator:
    """Reference validator.  Besides the violated rules it records `feats`: tags of the special constructs the
    instance exercises (used only to name disagreements after shrinking, never for the verdict)."""

    def __init__(self, schema):
        self.s = schema
        self.feats = set()

    def validate(self, el, decl=None):
        res = Result()
        self.feats = set()
        if decl is None:
            decl = self.s.elems.get((el.ns, el.local))
        if decl is None:
            res.errors.append('root-undeclared')
            return res
        res.root = self.v_elem(el, decl, res.errors, 'strict')
        res.feats = frozenset(self.feats)
        return res

    # ---- element ----------------------------------------------------------------------------------------------------
    def v_elem(self, el, decl, errs, mode):
        """mode: 'strict' | 'lax' (declaration may be None) | 'skip'"""
        node = Node(el.ns, el.local)
        node.el = el
        node.decl = decl
        F = _Feats(self.feats, node)
        errs = _Errs(errs, node)
        if mode == 'skip':
            node.assessed = False
            if el.xtype is not None:
                F.add('skip:xsi-type')
            if el.nil is not None:
                F.add('skip:xsi-nil')
            if (el.ns, el.local) in self.s.elems:
                F.add('skip:declared-element')
            for k in el.elems():
                node.kids.append(self.v_elem(k, None, errs, 'skip'))
            return node
        t = decl.type if decl is not None else ANYTYPE
        if decl is None:
            F.add('lax:undeclared-element')
            if el.xtype is None:
                # XSD 1.0 3.3.4: an element without declaration "may be laxly assessed" against the ur-type: whether declared
                # descendants / attributes get validated is left to the processor; decided only when it cannot matter
                sub = []
                saved = set(self.feats)
                self._lax_subtree(el, sub, node)
                self.feats.intersection_update(saved)
                F.add('lax:undeclared-element')
                if sub:
                    errs.append('unsupported:lax-assessment-of-undeclared-subtree')
                return node
        nilled = False
        if decl is not None and decl.abstract:
            errs.append('abstract-element')
        if el.nil is not None:
            v = ws_apply('collapse', el.nil)
            F.add('nil')
            if v in ('1', '0'):
                F.add('nil-lexical-numeric')
            if v in ('false', '0'):
                F.add('nil-false')
            if v != el.nil:
                F.add('nil-lexical-ws')
            if decl is None:
                errs.append('unsupported:nil-without-declaration')
            elif not decl.nillable:
                errs.append('nil-not-nillable')                         # cvc-elt.3.1
            elif v not in ('true', 'false', '1', '0'):
                errs.append('nil-bad-boolean')
            elif v in ('true', '1'):
                nilled = True
        if el.xtype is not None:
            xt_ = self.s.types.get(el.xtype)
            if xt_ is None:
                errs.append('xsitype-unresolved')                        # cvc-elt.4.2
            else:
                F.add('xsi-type:' + ('simple' if xt_.simple else 'complex'))
                blocked = set(decl.block if decl is not None else ()) & {'extension', 'restriction'}
                if not t.simple:
                    blocked |= t.block
                if blocked:
                    F.add('xsi-type:block')
                if not derivation_ok(xt_, t, blocked):
                    errs.append('xsitype-not-derived')                   # cvc-elt.4.3
                else:
                    t = xt_
        node.type = t if (decl is not None or el.xtype is not None) else None      # lax without declaration: not compared
        node.ctype = t
        if not t.simple and t.abstract:
            errs.append('abstract-type')                                 # cvc-complex-type.1 / cvc-type.2
        # attributes
        if t.simple:
            for (ns, local, v) in el.attrs:
                errs.append('attribute-on-simple-type')                  # cvc-type.3.1.1
                node.attrs[(ns, local)] = v
        else:
            self.v_attrs(el, t, node, errs)
        kids = el.elems()
        has_chars = el.has_chars()
        text = el.text()
        ws_only = has_chars and not any(c not in ' \t\r\n' for c in text)
        for k in el.kids:
            if isinstance(k, tuple):
                if k[0] == 'cd':
                    F.add('cdata-ws' if not k[1].strip(' \t\r\n') else 'cdata')
                elif k[0] == 'cr':
                    F.add('charref-ws')
        has_comment = any(isinstance(k, tuple) and k[0] == 'c' for k in el.kids)
        vc = None
        if decl is not None:
            vc = ('fixed', decl.fixed) if decl.fixed is not None else ('default', decl.default) if decl.default is not None else None
        node.nilled = nilled
        if nilled:
            if vc is not None:
                F.add('nil+element-' + vc[0])
            if ws_only:
                F.add('nil+ws-only-content')
            if has_comment:
                F.add('nil+comment')
            if kids or has_chars:
                errs.append('nil-not-empty')                             # cvc-elt.3.2.1
            if vc is not None and vc[0] == 'fixed':
                errs.append('nil-with-fixed')                            # cvc-elt.3.2.2
            for k in kids:
                node.kids.append(self.v_elem(k, None, [], 'skip'))
            return node
        simple = t if t.simple else (t.stype if t.content == 'simple' else None)
        if simple is not None:
            if kids:
                errs.append('child-in-simple-content')                   # cvc-type.3.1.2 / cvc-complex-type.2.2
                for k in kids:
                    node.kids.append(self.v_elem(k, None, [], 'skip'))
                return node
            if ws_only:
                F.add('ws-only-simple-content')
            if vc is not None:
                F.add('element-' + vc[0])
            if has_comment:
                F.add('comment-in-simple-content')
            if not has_chars and vc is not None:
                node.text = vc[1]                                        # cvc-elt.5.1: the default is used ...
                F.add('element-%s-applied' % vc[0])
                if not st_value(simple, vc[1])[0]:
                    errs.append('default-invalid-for-xsi-type')          # ... and must be valid for the actual (xsi:type) type, 5.1.1/5.1.2
            else:
                ok, val = st_value(simple, text)
                if text != ws_apply('collapse', text) and not ws_only:
                    F.add('value-with-whitespace')
                if not ok:
                    errs.append('simple-value-invalid')
                elif vc is not None and vc[0] == 'fixed':
                    if val != st_value(simple, vc[1])[1]:
                        errs.append('fixed-value-mismatch')              # cvc-elt.5.2.2.2
                    elif text != vc[1]:
                        F.add('element-fixed:lexically-different')
                node.text = text
            return node
        # complex content
        if t.content == 'empty':
            if ws_only:
                F.add('ws-in-empty-content')
            if has_comment:
                F.add('comment-in-empty-content')
            if kids or has_chars:
                errs.append('content-in-empty')                          # cvc-complex-type.2.1
        elif not t.mixed:
            if has_chars and not ws_only:
                errs.append('text-in-element-only')                      # cvc-complex-type.2.3
        elif has_chars:
            F.add('mixed-text')
        if vc is not None and t.content != 'empty':
            errs.append('unsupported:value-constraint-on-complex-content')
        # children against the particle: the matcher decides which leaf consumes each child
        plan = []
        failed = None
        r = t.regex if t.content != 'empty' else None
        for k in kids:
            if r is None or failed:
                plan.append((k, None, 'skip'))
                continue
            cands = t.candidates(k.ns, k.local)
            nxt = []
            for c in cands:
                d = deriv(r, c[1])
                if d != VOID:
                    nxt.append((c, d))
            if not nxt:
                failed = 'content-model-mismatch' if cands else 'child-not-allowed'
                plan.append((k, None, 'skip'))
                continue
            if len(nxt) > 1:
                raise ValueError('content model is not deterministic')
            lf, r = nxt[0]
            if lf[0] == 'e':
                plan.append((k, lf[3], 'strict', ['substitution-member'] if lf[3] is not lf[2] else []))
            else:
                pc = lf[2]
                g = self.s.elems.get((k.ns, k.local))
                cf = ['overlapping-wildcards'] if len(cands) > 1 else []
                if cf:
                    F.add('overlapping-wildcards')
                if pc == 'skip':
                    plan.append((k, None, 'skip', cf))
                elif g is not None:
                    plan.append((k, g, 'strict', cf + ['wildcard-%s:declared-element' % pc]))
                elif pc == 'strict' and k.xtype is None:
                    errs.append('strict-wildcard-no-declaration')        # cvc-assess-elt 1.1.1 / cvc-particle 3.x
                    plan.append((k, None, 'skip', cf))
                else:
                    plan.append((k, None, 'lax', cf + (['wildcard-strict:xsi-type-only'] if pc == 'strict' else [])))
        if t.content != 'empty':
            if failed is None and not nullable(r):
                failed = 'content-model-mismatch'                        # cvc-complex-type.2.4
            if failed:
                errs.append(failed)
                F.add('cm:' + cm_class(t))
        for item in plan:
            k, d, m = item[:3]
            kn = self.v_elem(k, d, errs if m != 'skip' else [], m)
            for x in (item[3] if len(item) > 3 else ()):
                self.feats.add(x)
                kn.feats.add(x)
            node.kids.append(kn)
        return node

    def _lax_subtree(self, el, errs, node=None):
        if node is None:
            node = Node(el.ns, el.local)
            node.el = el
        node.assessed = False
        if el.nil is not None:
            errs.append('nil-without-declaration')
        for (ns, local, v) in el.attrs:
            g = self.s.gattrs.get((ns, local))
            if g is not None and not st_value(g.type, v)[0]:
                errs.append('attribute-value-invalid')
        for k in el.elems():
            g = self.s.elems.get((k.ns, k.local))
            if g is not None or k.xtype is not None:
                kn = self.v_elem(k, g, errs, 'lax')

                def off(n):
                    n.assessed = False
                    for c in n.kids:
                        off(c)
                off(kn)             # what is reported for such an element is not compared (processor latitude)
                node.kids.append(kn)
            else:
                node.kids.append(self._lax_subtree(k, errs))
        return node

    # ---- attributes -------------------------------------------------------------------------------------------------
    def v_attrs(self, el, t, node, errs):
        F = _Feats(self.feats, node)
        seen = set()
        for (ns, local, v) in el.attrs:
            key = (ns, local)
            node.attrs[key] = v
            seen.add(key)
            u = t.attrs.get(key)
            if u is not None:
                ok, val = st_value(u.decl.type, v)
                if not ok:
                    errs.append('attribute-value-invalid')               # cvc-attribute.3
                elif u.fixed is not None and val != st_value(u.decl.type, u.fixed)[1]:
                    errs.append('attribute-fixed-mismatch')              # cvc-au
                elif u.fixed is not None and v != u.fixed:
                    F.add('attribute-fixed:lexically-different')
                continue
            if t.base is not None and not t.base.simple and t.base is not ANYTYPE and t.method == 'restriction' and key in t.base.attrs:
                F.add('prohibited-attribute-present')
            aw = t.anyattr
            if aw is None or not nsc_allows(aw[0], ns):
                errs.append('attribute-not-allowed')                     # cvc-complex-type.3.2
                continue
            F.add('attribute-wildcard-' + aw[1])
            if aw[1] == 'skip':
                continue
            g = self.s.gattrs.get(key)
            if g is None:
                if aw[1] == 'strict':
                    errs.append('strict-attribute-wildcard-no-declaration')
                continue
            ok, val = st_value(g.type, v)
            if not ok:
                errs.append('attribute-value-invalid')
        for key, u in t.attrs.items():
            if key in seen:
                continue
            if u.use == 'required':
                errs.append('required-attribute-missing')                # cvc-complex-type.4
            elif u.fixed is not None or u.default is not None:
                node.attrs[key] = u.fixed if u.fixed is not None else u.default
                node.adefault.add(key)


def cm_class(t):
    """coarse class of a content model, following the strategies an implementation may use"""
    p = t.particle
    if p is None:
        return 'none'
    tags = set()

    def walk(p, top):
        k = p[0]
        mn, mx = p[-2], p[-1]
        basic = (mn, mx) in ((1, 1), (0, 1), (0, None), (1, None))
        if k == 'all':
            tags.add('all')
        elif k in ('e', 'any'):
            if not basic:
                tags.add('leaf-range')
            if k == 'any':
                tags.add('wildcard')
            elif p[1].glob and p[1].subst is None and False:
                pass
        else:
            if not basic:
                tags.add('group-range')
        if k not in ('e', 'any'):
            for x in p[1]:
                walk(x, False)
    walk(p, True)
    return '+'.join(sorted(tags)) or 'basic'


# =====================================================================================================================
#  words of a particle (valid-by-construction children)
# =====================================================================================================================
def min_word(p):
    """shortest list of leaf particles"""
    if p is None:
        return []
    mn = p[-2]
    if mn == 0:
        return []
    if p[0] in ('e', 'any'):
        return [p] * mn
    if p[0] in ('seq', 'all'):
        one = []
        for x in p[1]:
            one += min_word(x)
    else:
        one = min((min_word(x) for x in p[1]), key=len) if p[1] else []
    return one * mn


def rand_word(p, r, big=False):
    if p is None:
        return []
    mn, mx = p[-2], p[-1]
    if mx is None:
        hi = mn + (r.choice([0, 1, 2, 3, 8]) if not big else r.choice([0, 1, 5, 40]))
    else:
        hi = mx
    n = r.randint(mn, hi) if r.random() < 0.6 else r.choice([mn, hi])
    out = []
    for _ in range(n):
        if p[0] in ('e', 'any'):
            out.append(p)
        elif p[0] == 'seq':
            for x in p[1]:
                out += rand_word(x, r, big)
        elif p[0] == 'choice':
            if p[1]:
                out += rand_word(r.choice(p[1]), r, big)
        else:
            items = list(p[1])
            r.shuffle(items)
            for x in items:
                out += rand_word(x, r, big)
    return out


# =====================================================================================================================
#  values
# =====================================================================================================================
GOOD = {'int': ['7', '-3', '0'], 'string': ['x', 'some text'], 'token': ['tok'], 'boolean': ['true', '0'],
        'stEnum': ['red', 'green'], 'stSmall': ['3', '9'], 'integer': ['12'], 'decimal': ['1.5']}
# lexically different spellings that are still valid (verdict only; never compared with reported text)
GOOD_FANCY = {'int': [' 7 ', '+7', '007', '-0'], 'boolean': [' 1', 'false'], 'stEnum': [' red '], 'stSmall': ['+3', '09'],
              'token': ['  a   b '], 'string': ['', ' '], 'integer': ['+12'], 'decimal': ['.5', '1.']}
BAD = {'int': ['x', '1.5', '2147483648', ''], 'boolean': ['yes', ''], 'stEnum': ['blue', '', 'RED'],
       'stSmall': ['10', '-1', 'x'], 'integer': ['1.0', ''], 'decimal': ['1e3', '']}


def good_value(st, r=None, fancy=False):
    pool = GOOD[st.name] + (GOOD_FANCY.get(st.name, []) if fancy else [])
    return pool[0] if r is None else r.choice(pool)


def bad_value(st, r):
    pool = BAD.get(st.name)
    return r.choice(pool) if pool else None


# =====================================================================================================================
#  instance construction
# =====================================================================================================================
class Builder:
    def __init__(self, schema):
        self.s = schema
        self._min = {}

    def wild_child(self, nsc, pc, r=None):
        """an element admitted by the wildcard that is valid under its processContents"""
        cands = []
        if nsc_allows(nsc, U):
            cands.append(lambda: self.min_instance(self.s.elems[(U, 'g1')]))
        if nsc_allows(nsc, O) and pc != 'strict':
            cands.append(lambda: El(O, 'x', [(None, 'any', '1')], ['free ', El(O, 'y')]))
        if nsc_allows(nsc, self.s.tns) and (self.s.tns, 'z') in self.s.elems:
            cands.append(lambda: self.min_instance(self.s.elems[(self.s.tns, 'z')]))
        if nsc_allows(nsc, None) and pc != 'strict' and self.s.tns is not None:
            cands.append(lambda: El(None, 'x0'))
        if not cands:
            return None
        return (cands[0] if r is None else r.choice(cands))()

    def content_for(self, el, t, word, r=None, depth=0, fancy=False):
        """fill el with attributes/children/text valid for type t; word: list of leaf particles"""
        if t.simple:
            el.kids = [good_value(t, r, fancy)] if good_value(t, r, fancy) != '' else []
            return el
        for key, u in t.attrs.items():
            if u.use == 'required' or (r is not None and r.random() < 0.4):
                v = u.fixed if u.fixed is not None else good_value(u.decl.type, r, fancy)
                el.attrs.append((key[0], key[1], v))
        if t.content == 'simple':
            v = good_value(t.stype, r, fancy)
            el.kids = [v] if v != '' else []
            return el
        for p in word:
            if p[0] == 'e':
                d = p[1]
                if r is not None and d.glob:
                    opts = [d] + self.s.substitutable(d)
                    opts = [x for x in opts if not x.abstract and not (not x.type.simple and x.type.abstract)] or [d]
                    d = r.choice(opts)
                el.kids.append(self.min_instance(d) if r is None or depth > 2 else self.rand_instance(d, r, depth + 1, fancy))
            else:
                c = self.wild_child(p[1], p[2], r)
                if c is not None:
                    el.kids.append(c)
        if t.mixed and r is not None and r.random() < 0.7:
            for _ in range(r.randint(1, 2)):
                el.kids.insert(r.randint(0, len(el.kids)), r.choice(['txt', ' m ', 'x']))
        elif r is not None and t.content == 'elements' and r.random() < 0.3:
            el.kids.insert(r.randint(0, len(el.kids)), r.choice([' ', '\t', ('c', 'note')]))
        return el

    def min_instance(self, d):
        k = id(d)
        if k not in self._min:
            self._min[k] = None     # recursion guard (no recursive types are generated)
            el = El(d.ns, d.local)
            t = d.type
            self.content_for(el, t, [] if t.simple else min_word(t.particle))
            if d.fixed is not None and (t.simple or t.content == 'simple'):
                el.kids = [d.fixed] if d.fixed else []
            self._min[k] = el
        return self._min[k].copy()

    def rand_instance(self, d, r, depth=0, fancy=False):
        el = El(d.ns, d.local)
        t = d.type
        x = r.random()
        if d.nillable and x < 0.15:
            el.nil = r.choice(['true', '1'])
            if not t.simple:
                for key, u in t.attrs.items():
                    if u.use == 'required':
                        el.attrs.append((key[0], key[1], u.fixed if u.fixed is not None else good_value(u.decl.type, r)))
            return el
        if x > 0.85:
            # xsi:type to a type that may be substituted
            blocked = set(d.block) & {'extension', 'restriction'}
            if not t.simple:
                blocked |= t.block
            cands = [c for c in self.s.types.values() if c is not t and c.name is not None and derivation_ok(c, t, blocked)
                     and not (not c.simple and c.abstract) and (c.simple or c.finalized) and c.ns != XS]
            if cands:
                t = r.choice(sorted(cands, key=lambda c: c.name))
                el.xtype = t.key
        self.content_for(el, t, [] if t.simple else rand_word(t.particle, r), r, depth, fancy)
        if d.fixed is not None and (t.simple or t.content == 'simple'):
            el.kids = [d.fixed] if (d.fixed and r.random() < 0.7) else []
        elif d.default is not None and r.random() < 0.3 and (t.simple or t.content == 'simple'):
            el.kids = []
        return el


def all_elements(el, out=None):
    if out is None:
        out = []
    out.append(el)
    for k in el.elems():
        all_elements(k, out)
    return out


MUTATIONS = ['drop-attr', 'add-undeclared-attr', 'add-foreign-attr', 'add-uga', 'corrupt-attr', 'drop-child', 'dup-child',
             'swap-children', 'insert-foreign', 'insert-text', 'insert-ws', 'set-nil', 'set-nil-false', 'set-xsitype', 'rename-child',
             'flip-ns', 'corrupt-text', 'empty-content', 'insert-cdata-ws', 'insert-charref-ws', 'insert-comment']


def mutate(schema, builder, root, r, kind=None):
    """one rule-directed change somewhere in a copy of the instance; returns (kind, new root) or None when not applicable"""
    kind = kind or r.choice(MUTATIONS)
    root = root.copy()
    els = all_elements(root)
    e = r.choice(els)
    if kind == 'drop-attr':
        c = [x for x in els if x.attrs]
        if not c:
            return None
        e = r.choice(c)
        e.attrs.pop(r.randrange(len(e.attrs)))
    elif kind == 'add-undeclared-attr':
        e.attrs.append((None, 'zz', '1'))
    elif kind == 'add-foreign-attr':
        e.attrs.append((O, 'oa', 'v'))
    elif kind == 'add-uga':
        if any(a[:2] == (U, 'ga') for a in e.attrs):
            return None
        e.attrs.append((U, 'ga', r.choice(['5', 'notint'])))
    elif kind == 'corrupt-attr':
        c = [x for x in els if x.attrs]
        if not c:
            return None
        e = r.choice(c)
        i = r.randrange(len(e.attrs))
        e.attrs[i] = (e.attrs[i][0], e.attrs[i][1], r.choice(['!', '', 'red', '12', ' 7 ', 'F1', 'true', '+4', '04', ' F1 ', ' 4']))
    elif kind in ('drop-child', 'dup-child', 'swap-children', 'rename-child', 'flip-ns'):
        c = [x for x in els if x.elems()]
        if not c:
            return None
        e = r.choice(c)
        idx = [i for i, k in enumerate(e.kids) if isinstance(k, El)]
        i = r.choice(idx)
        if kind == 'drop-child':
            e.kids.pop(i)
        elif kind == 'dup-child':
            e.kids.insert(i, e.kids[i].copy())
        elif kind == 'swap-children':
            if len(idx) < 2:
                return None
            j = r.choice([x for x in idx if x != i])
            e.kids[i], e.kids[j] = e.kids[j], e.kids[i]
        elif kind == 'rename-child':
            names = sorted(k for k in schema.elems if k[0] == schema.tns)
            e.kids[i].ns, e.kids[i].local = r.choice(names)
        else:
            k = e.kids[i]
            k.ns = None if k.ns is not None else (schema.tns or T)
    elif kind == 'insert-foreign':
        pool = [El(O, 'x'), El(None, 'x0'), builder.min_instance(schema.elems[(U, 'g1')]), El(U, 'g1', [], ['notint']),
                builder.min_instance(schema.elems[(schema.tns, 'z')]), El(U, 'nope')]
        e.kids.insert(r.randint(0, len(e.kids)), r.choice(pool))
    elif kind == 'insert-text':
        e.kids.insert(r.randint(0, len(e.kids)), r.choice(['x', 'some', '7']))
    elif kind == 'insert-ws':
        e.kids.insert(r.randint(0, len(e.kids)), r.choice([' ', '\t ']))
    elif kind == 'insert-comment':
        e.kids.insert(r.randint(0, len(e.kids)), ('c', 'c'))
    elif kind == 'insert-cdata-ws':
        e.kids.insert(r.randint(0, len(e.kids)), ('cd', ' '))
    elif kind == 'insert-charref-ws':
        e.kids.insert(r.randint(0, len(e.kids)), ('cr', 32))
    elif kind == 'set-nil':
        e.nil = r.choice(['true', '1', 'true', ' true '])
        if r.random() < 0.6:
            e.kids = []
    elif kind == 'set-nil-false':
        e.nil = r.choice(['false', '0'])
    elif kind == 'set-xsitype':
        names = sorted((k for k in schema.types if k[1] is not None), key=lambda k: (k[0] or '', k[1]))
        e.xtype = r.choice(names + [(schema.tns, 'NoSuchType')])
    elif kind == 'corrupt-text':
        c = [x for x in els if not x.elems()]
        e = r.choice(c)
        e.kids = [r.choice(['!', 'red', '12', ' 7 ', 'blue', 'F1', '1.5', 'true', '+7', '07', ' x', '+3', '1'])]
    elif kind == 'empty-content':
        e.kids = []
    else:
        raise ValueError(kind)
    return kind, root


# =====================================================================================================================
#  random schemas
# =====================================================================================================================
LEAF_OCC = [(1, 1)] * 4 + [(0, 1)] * 3 + [(0, UNB), (1, UNB), (2, 2), (2, 3), (0, 2), (1, 2), (3, UNB), (2, UNB), (0, 3), (1, 3), (3, 3), (2, 5), (0, 5), (4, 4)]
GROUP_OCC = [(1, 1)] * 5 + [(0, 1)] * 2 + [(0, UNB), (1, UNB), (2, 2), (1, 2), (0, 2), (2, 3), (2, UNB)]


def narrow(r, mn, mx):
    """a sub-range of [mn, mx] with max >= 1"""
    hi_cap = mx if mx is not None else mn + 3
    lo = r.randint(mn, max(mn, min(hi_cap, mn + 2)))
    lo = max(lo, mn)
    choices = []
    top = mx if mx is not None else None
    if top is None:
        choices = [None, max(lo, 1), max(lo, 1) + 1]
    else:
        choices = [x for x in range(max(lo, 1), top + 1)] or [top]
    hi = r.choice(choices)
    if hi is not None and lo > hi:
        lo = hi
    return lo, hi


def gen_schema(r, force=None):
    """random schema; returns Schema with .info (dict: focus type, root declarations, feature tags).  Every content model is
    checked by the reference UPA checker (upa_check); a candidate that fails is discarded and another one is drawn."""
    import random
    for attempt in range(50):
        r2 = random.Random(r.getrandbits(64))
        try:
            return _gen_schema(r2, force)
        except ValueError as e:
            if 'UPA' not in str(e):
                raise
    raise RuntimeError('no UPA-clean schema found')


def _gen_schema(r, force=None):
    force = force or {}
    tns = force.get('tns', T if r.random() < 0.7 else None)
    efd = force.get('efd', r.random() < 0.6)
    s = Schema(tns, efd)
    tags = set()
    lns = tns if efd else None                      # namespace of local elements by default
    tags.add('tns' if tns else 'no-tns')
    tags.add('efd-qualified' if efd else 'efd-unqualified')

    def local_ns():
        if tns is not None and r.random() < 0.12:
            tags.add('form-override')
            return None if lns is not None else tns
        return lns

    # ---- urn:u ---------------------------------------------------------------------------------------------------
    ug1 = s.add_elem(EDecl(U, 'g1', B['int'], glob=True), 'u')
    g2t = CType(U, None, own_attrs=[AUse(ADecl(None, 'k', B['int']), use='required')])
    s.add_elem(EDecl(U, 'g2', g2t, glob=True), 'u')
    uga = s.add_gattr(ADecl(U, 'ga', B['int'], glob=True), 'u')
    # ---- named types ------------------------------------------------------------------------------------------------
    st_enum = s.add_type(SType(tns, 'stEnum', B['token'], enum=['red', 'green']))
    st_small = s.add_type(SType(tns, 'stSmall', B['int'], lo=Decimal(0), hi=Decimal(9)))
    leafc = s.add_type(CType(tns, 'LeafC', own_attrs=[AUse(ADecl(None, 'k', B['int']))]))
    simple_pool = [B['int'], B['string'], B['token'], B['boolean'], st_enum, st_small]
    # ---- substitution family ----------------------------------------------------------------------------------------
    def blockset(p, universe):
        return frozenset(x for x in universe if r.random() < 0.5) if r.random() < p else frozenset()
    hk = EDecl(lns, 'hk', B['int'])
    ht = s.add_type(CType(tns, 'HT', own_particle=('seq', [('e', hk, 0, 1)], 1, 1), own_attrs=[AUse(ADecl(None, 'ha', B['string']))],
                          block=blockset(0.25, ('extension', 'restriction')), abstract=r.random() < 0.06))
    hx = EDecl(lns, 'hx', B['string'])
    htx = s.add_type(CType(tns, 'HTX', base=ht, method='extension', own_particle=('seq', [('e', hx, 0, 1)], 1, 1),
                           block=blockset(0.25, ('extension', 'restriction'))))
    hk2 = EDecl(lns, 'hk', B['int'])
    htr = s.add_type(CType(tns, 'HTR', base=ht, method='restriction', own_particle=('seq', [('e', hk2, 1, 1)], 1, 1),
                           own_attrs=[AUse(ADecl(None, 'ha', B['string']), use='required')]))
    htxx = s.add_type(CType(tns, 'HTXX', base=htx, method='extension', own_attrs=[AUse(ADecl(None, 'hb', B['int']))]))
    g = s.add_elem(EDecl(tns, 'g', B['int'], glob=True, default='5' if r.random() < 0.5 else None))
    s.add_elem(EDecl(tns, 'z', B['string'], glob=True))
    h = s.add_elem(EDecl(tns, 'h', ht, glob=True, abstract=force.get('head', r.random() < 0.25),
                         block=blockset(0.35, ('extension', 'restriction', 'substitution'))))
    m1 = s.add_elem(EDecl(tns, 'm1', htx, glob=True, subst=h, abstract=r.random() < 0.1))
    s.add_elem(EDecl(tns, 'm2', htr, glob=True, subst=h))
    s.add_elem(EDecl(tns, 'm3', ht, glob=True, subst=h, notype=True))
    s.add_elem(EDecl(tns, 'm11', htxx, glob=True, subst=m1))
    if h.abstract:
        tags.add('abstract-head')
    if h.block:
        tags.add('head-block')
    if ht.block or htx.block:
        tags.add('type-block')
    # ---- focus type -------------------------------------------------------------------------------------------------
    kind = force.get('content', r.choice(['elements'] * 14 + ['mixed'] * 3 + ['empty'] + ['simple'] * 2))
    use_all = kind in ('elements', 'mixed') and force.get('all', r.random() < 0.15)
    named = force.get('named', r.random() < 0.8)
    tags.add('content-' + kind)
    anon_local = [False]

    def local_decl(name):
        ns = local_ns()
        x = r.random()
        if x < 0.55:
            st = r.choice(simple_pool)
            d = EDecl(ns, name, st, nillable=r.random() < 0.2)
            y = r.random()
            if y < 0.2:
                d.default = good_value(st)
                tags.add('element-default')
            elif y < 0.3:
                d.fixed = good_value(st)
                tags.add('element-fixed')
            return d
        if x < 0.7:
            return EDecl(ns, name, leafc, nillable=r.random() < 0.2)
        if x < 0.8:
            return EDecl(ns, name, ht, nillable=r.random() < 0.2, block=blockset(0.3, ('extension', 'restriction')))
        if x < 0.9:
            anon_local[0] = True
            tags.add('anonymous-local-type')
            at = CType(tns, None, own_particle=('seq', [('e', EDecl(ns, 'i', B['int']), 0, 2)], 1, 1),
                       own_attrs=[AUse(ADecl(None, 'k', B['int']), default='7')])
            return EDecl(ns, name, at)
        sc = s.types.get((tns, 'SC'))
        if sc is None:
            sc = s.add_type(CType(tns, 'SC', simple_base=B['int'], own_attrs=[AUse(ADecl(None, 'u', B['token']))]))
        return EDecl(ns, name, sc, default='5' if r.random() < 0.3 else None)

    def make_items(names, n, allow_wild, all_group=False):
        kinds = ['local'] * 5 + ['g', 'h', 'ug1'] + (['wild'] * 2 if allow_wild and not all_group else [])
        out = []
        used = set()
        names = list(names)
        for _ in range(n):
            k = r.choice(kinds)
            if k in used and k != 'local':
                k = 'local'
            if k == 'local' and not names:
                continue
            used.add(k)
            if k == 'local':
                out.append(('e', local_decl(names.pop(0))))
            elif k == 'g':
                out.append(('e', g))
            elif k == 'h':
                out.append(('e', h))
                tags.add('substitution-head-particle')
            elif k == 'ug1':
                out.append(('e', ug1))
            else:
                out.append(('wild',))
        return out

    def elem_namespaces(items):
        out = set()
        for it in items:
            if it[0] == 'e':
                out.add(it[1].ns)
        return out

    def pick_wild(forbidden, also_wild=None):
        opts = [('any',), ('other', tns), ('set', frozenset([tns])), ('set', frozenset([None])), ('set', frozenset([U])),
                ('set', frozenset([U, O])), ('set', frozenset([tns, None])), ('set', frozenset([O])), ('set', frozenset([None, U]))]
        ok = []
        for o in opts:
            if any(nsc_allows(o, ns) for ns in forbidden):
                continue
            if also_wild is not None and any(nsc_allows(o, ns) and nsc_allows(also_wild, ns) for ns in (T, U, O, None, 'urn:zz')):
                continue
            ok.append(o)
        if not ok:
            return None
        return r.choice(ok), r.choice(['strict', 'lax', 'skip'])

    def build(items, depth, all_group=False):
        """items: list of ('e', decl) | ('any', nsc, pc)  -> particle"""
        def leaf(it):
            mn, mx = r.choice(LEAF_OCC)
            if all_group:
                mn, mx = r.choice([(0, 1), (1, 1)])
            if it[0] == 'e':
                return ('e', it[1], mn, mx)
            return ('any', it[1], it[2], mn, mx)
        if all_group:
            lv = [leaf(x) for x in items]
            if all(x[-2] == 0 for x in lv) and r.random() < 0.7:
                lv[0] = lv[0][:-2] + (1, 1)          # mostly keep at least one required member
            return ('all', lv, r.choice([0, 1, 1]), 1)
        if len(items) == 1 and depth > 0:
            return leaf(items[0])
        if len(items) == 1:
            return ('seq', [leaf(items[0])], 1, 1) if r.random() < 0.7 else (r.choice(['seq', 'choice']), [leaf(items[0])]) + r.choice(GROUP_OCC)
        kindp = r.choice(['seq', 'seq', 'choice'])
        k = r.randint(2, min(4, len(items))) if depth < 2 else len(items)
        cuts = sorted(r.sample(range(1, len(items)), k - 1))
        parts = [items[i:j] for i, j in zip([0] + cuts, cuts + [len(items)])]
        mn, mx = r.choice(GROUP_OCC) if depth > 0 or r.random() < 0.4 else (1, 1)
        return (kindp, [build(p_, depth + 1) for p_ in parts], mn, mx)

    f_items = x_items = []
    twowild = kind == 'elements' and not use_all and force.get('twowild', r.random() < 0.12)
    if twowild:
        # two wildcards over the SAME namespaces, kept deterministic by an exact count and a required element in between
        tags.add('overlapping-wildcards')
        nsc = r.choice([('set', frozenset([U])), ('set', frozenset([U, O])), ('other', tns), ('any',), ('set', frozenset([tns])), ('set', frozenset([tns, U]))])
        k = r.choice([1, 2, 2, 3])
        sep_ns = r.choice([tns, None, lns])
        sep = EDecl(sep_ns, 'b', r.choice(simple_pool))
        parts = []
        if r.random() < 0.4:
            parts.append(('e', EDecl(sep_ns, 'a', r.choice(simple_pool)), r.choice([0, 1]), 1))
        pcs = [r.choice(['strict', 'lax', 'skip']), r.choice(['skip', 'skip', 'lax', 'strict'])]
        parts.append(('any', nsc, pcs[0], k, k))
        parts.append(('e', sep, 1, r.choice([1, 1, 2])))
        parts.append(('any', nsc, pcs[1], 0, r.choice([UNB, 1, 2, 3])))
        tags.add('wildcard-' + nsc[0])
        tags.update('pc-' + x for x in pcs)
        f_particle_forced = ('seq', parts, 1, 1)
        named = True
    elif kind in ('elements', 'mixed'):
        f_items = make_items(['a', 'b', 'c', 'd'], force.get('nitems', r.randint(1, 4)), True, use_all)
        if not f_items:
            f_items = [('e', local_decl('a'))]
        if force.get('head') and not any(it[0] == 'e' and it[1] is h for it in f_items):
            f_items.insert(r.randint(0, len(f_items)), ('e', h))
            tags.add('substitution-head-particle')
        if named and not use_all and r.random() < 0.8:
            x_items = make_items(['e', 'f'], r.randint(1, 2), not any(i[0] == 'wild' for i in f_items))
            x_items = [it for it in x_items if it[0] != 'e' or it[1] not in [j[1] for j in f_items if j[0] == 'e']]
    elif kind == 'empty' and named:
        x_items = make_items(['e', 'f'], r.randint(0, 2), True)
    # resolve wildcards against the element namespaces of the whole derivation family
    forb = elem_namespaces(f_items + x_items)
    if any(it[0] == 'e' and it[1] is h for it in f_items + x_items) or True:
        forb.add(tns)       # substitution members and globals live in the target namespace
    fw = None

    def resolve(items):
        nonlocal fw
        out = []
        for it in items:
            if it[0] == 'wild':
                w = pick_wild(forb, fw)
                if w is None:
                    continue
                fw = w[0]
                tags.add('wildcard-' + w[0][0])
                tags.add('pc-' + w[1])
                out.append(('any', w[0], w[1]))
            else:
                out.append(it)
        return out
    f_items = resolve(f_items)
    x_items = resolve(x_items)
    if kind in ('elements', 'mixed') and not f_items and not twowild:
        f_items = [('e', local_decl('a'))]
    f_particle = build(f_items, 0, use_all) if f_items else None
    if twowild:
        f_particle = f_particle_forced
    if use_all:
        tags.add('all-group')
    # attributes
    attr_pool = [AUse(ADecl(None, 'q', B['string']), default='dd'), AUse(ADecl(None, 'n', B['int']), use='required'),
                 AUse(ADecl(None, 'fx', B['token']), fixed='F1'), AUse(ADecl(None, 'e', st_enum)), AUse(uga),
                 AUse(ADecl(None, 'o', B['int'])), AUse(ADecl(None, 'fr', B['int']), use='required', fixed='4')]
    if tns is not None:
        attr_pool.append(AUse(ADecl(tns, 'qa', B['int']), default='1'))
    r.shuffle(attr_pool)
    f_attrs = attr_pool[:r.choice([0, 1, 2, 2, 3, 4])]
    f_any = None
    if force.get('fany', r.random() < 0.25):
        f_any = (r.choice([('any',), ('other', tns), ('set', frozenset([None])), ('set', frozenset([U])), ('set', frozenset([U, O]))]),
                 r.choice(['strict', 'lax', 'skip']))
        if isinstance(force.get('fany'), tuple):
            f_any = (force['fany'], f_any[1])
        tags.add('anyAttribute')
    fname = 'F' if named else None
    if kind == 'simple':
        F = CType(tns, fname, simple_base=r.choice(simple_pool), own_attrs=f_attrs, own_anyattr=f_any)
    else:
        F = CType(tns, fname, own_particle=f_particle, own_attrs=f_attrs, own_anyattr=f_any, mixed=(kind == 'mixed'),
                  abstract=named and r.random() < 0.05, block=blockset(0.2, ('extension', 'restriction')) if named else frozenset())
    if named:
        s.add_type(F)
    if F.abstract:
        tags.add('abstract-type')
    if F.block:
        tags.add('focus-type-block')
    rdecl = s.add_elem(EDecl(tns, 'r', F, glob=True, nillable=force.get('nillable', r.random() < 0.4), block=blockset(0.2, ('extension', 'restriction'))))
    roots = [('r', rdecl)]
    derived = []
    if named and not twowild:
        # extension
        if r.random() < 0.85:
            xp = build(x_items, 1) if x_items else None
            if xp is not None and xp[0] in ('e', 'any'):
                xp = ('seq', [xp], 1, 1)
            xattrs = [AUse(ADecl(None, 'xa', B['int']), use=r.choice(['optional', 'required']))] if r.random() < 0.5 else []
            x_any = None
            if kind != 'simple' and force.get('xany', r.random() < 0.3):
                # a wildcard of the extension itself: the complete wildcard is the union with the base type's
                cands = [('any',), ('other', tns), ('set', frozenset([U])), ('set', frozenset([U, O])), ('set', frozenset([None, tns])), ('set', frozenset([O]))]
                r.shuffle(cands)
                for cnd in cands:
                    if f_any is None or nsc_union(cnd, f_any[0]) is not None:
                        x_any = (cnd, r.choice(['strict', 'lax', 'skip']))
                        tags.add('attribute-wildcard-union' if f_any is not None else 'extension-anyAttribute')
                        break
            FX = s.add_type(CType(tns, 'FX', base=F, method='extension', own_particle=xp, own_attrs=xattrs, own_anyattr=x_any,
                                  mixed=F.mixed if kind != 'empty' else False))
            roots.append(('rx', s.add_elem(EDecl(tns, 'rx', FX, glob=True))))
            derived.append(FX)
            tags.add('extension')
        # restriction of occurrence ranges / attribute uses
        if kind in ('elements', 'mixed') and not anon_local[0] and r.random() < 0.85:
            def restate(p):
                if p[0] == 'e':
                    mn, mx = narrow(r, p[2], p[3]) if p[3] != 0 else (p[2], p[3])
                    return ('e', p[1], mn, mx)
                if p[0] == 'any':
                    mn, mx = narrow(r, p[3], p[4])
                    return ('any', p[1], p[2], mn, mx)
                if p[0] == 'all':
                    return ('all', [('e', x[1], r.choice([x[2], 1]), 1) for x in p[1]], r.choice([p[2], 1]), 1)
                mn, mx = narrow(r, p[2], p[3])
                if (mn, mx) == (1, 1) and (p[2], p[3]) != (1, 1):
                    # a group narrowed to exactly {1,1} becomes a "pointless" particle in the restriction only: Particle
                    # Valid (Restriction) is then applied to differently flattened trees and may fail by the letter of
                    # 3.9.6 (e.g. wildcard against sequence is forbidden) -- not a restriction this generator can call valid
                    mn, mx = p[2], p[3]
                return (p[0], [restate(x) for x in p[1]], mn, mx)
            rp = restate(f_particle)
            rattrs = []
            for u in f_attrs:
                x = r.random()
                if u.use == 'optional' and x < 0.3:
                    rattrs.append(AUse(u.decl, use='prohibited'))
                    tags.add('prohibited-attribute')
                elif u.use == 'optional' and x < 0.5:
                    rattrs.append(AUse(u.decl, use='required', default=None, fixed=u.fixed))
                elif u.use == 'optional' and u.fixed is None and u.default is None and x < 0.7:
                    rattrs.append(AUse(u.decl, fixed=good_value(u.decl.type)))
            FR = s.add_type(CType(tns, 'FR', base=F, method='restriction', own_particle=rp, own_attrs=rattrs, own_anyattr=f_any, mixed=F.mixed))
            roots.append(('rr', s.add_elem(EDecl(tns, 'rr', FR, glob=True))))
            derived.append(FR)
            tags.add('restriction')
    # wrapper for batched instances
    wt = CType(tns, None, own_particle=('choice', [('e', d, 1, 1) for _, d in roots], 0, UNB))
    s.add_elem(EDecl(tns, 'w', wt, glob=True))
    # rendering sugar
    s.split = r.random() < 0.3
    if s.split:
        tags.add('include')
    if f_particle is not None and f_particle[0] in ('seq', 'choice', 'all') and r.random() < 0.3:
        s.groupdefs[id(f_particle)] = ('G1', f_particle)
        tags.add('named-group')
    if f_any is not None and force.get('anysplit', r.random() < 0.5):
        # the wildcard of F as the intersection of a local <anyAttribute> and one that comes from an attribute group
        A, Bc = nsc_split(f_any[0], tns, r, kind=force.get('anysplit') if isinstance(force.get('anysplit'), str) else None)
        s.attgroups.append(('AGW', [], (A, r.choice(['strict', 'lax', 'skip']))))
        F.render_hints['anysplit'] = ('AGW', Bc)
        tags.add('attribute-wildcard-intersection')
        if f_attrs and kind != 'simple' and r.random() < 0.3:
            s.attgroups.append(('AG1', f_attrs, None))
            F.render_hints['attgroup'] = 'AG1'
            tags.add('attributeGroup')
    elif f_attrs and kind != 'simple' and r.random() < 0.3:
        s.attgroups.append(('AG1', f_attrs, f_any))
        F.render_hints['attgroup'] = 'AG1'
        F.render_hints['attgroup_any'] = True
        tags.add('attributeGroup')
    if r.random() < 0.2 and kind != 'simple':
        F.render_hints['explicit_anytype'] = True
    s.finalize()
    s.info = {'focus': F, 'roots': roots, 'derived': derived, 'tags': sorted(tags), 'kind': kind}
    return s


def alphabet(schema, t, builder):
    """child symbols for exhaustive sequences over type t: {symbol: El factory}; covers every name the type can
    match (incl. blocked substitution members), one declared foreign element, one element of another namespace, and for
    wildcard types an undeclared element, an unqualified undeclared element and a declared-but-invalid element"""
    sym = {}
    if t.simple or t.content in ('simple', 'empty'):
        pass
    else:
        for p in t.leaves:
            if p[0] != 'e':
                continue
            d = p[1]
            sym[qname(d.ns, d.local)] = d
            if d.glob:
                for m in schema.all_members(d):
                    sym[qname(m.ns, m.local)] = m
    out = {}
    for k, d in sym.items():
        out[k] = builder.min_instance(d)
    out['z'] = builder.min_instance(schema.elems[(schema.tns, 'z')])
    out.setdefault('u:g1', builder.min_instance(schema.elems[(U, 'g1')]))
    if not t.simple and t.content == 'elements' and t.wild:
        out['o:x'] = El(O, 'x')
        out['u:g1!'] = El(U, 'g1', [], ['notint'])
        if schema.tns is not None:
            out['x0'] = El(None, 'x0')
        if any(nsc_allows(nsc, schema.tns) for (_, nsc, _) in t.wild):
            g = schema.elems[(schema.tns, 'g')]
            out.setdefault(qname(g.ns, g.local), builder.min_instance(g))
            out[qname(g.ns, g.local) + '!'] = El(g.ns, g.local, [], ['notint'])
    return out
