"""icref: reference for XML Schema 1.0 identity constraints (Structures 3.11) on the xsdgen instance model.

* IC: constraint definition (unique / key / keyref) with selector and field XPaths, rendered inside an element declaration.
* XPath subset of 3.11.6: Path ('|' Path)*, Path = ('.//')? Step ('/' Step)*, Step = '.' | NameTest, the last step of a
  field may be '@' NameTest; NameTest = QName | '*' | NCName ':*'; prefixes are bound as in the schema document;
  unprefixed names are in no namespace.
* key-sequences are compared in the VALUE space (xsdgen.st_value): two values are equal iff they belong to the same
  primitive type and are equal there (1, 01, +1, 1.0 are one decimal; 'a' as string and as token are one string).
* check(): cvc-identity-constraint 1-4 with the node tables of 3.11.5 (tables propagate from children to parents, entries
  with one key-sequence but different nodes are dropped while propagating, own entries win)."""
import re
from . import xsdgen as xg


class IC:
    def __init__(self, kind, name, selector, fields, refer=None):
        self.kind, self.name, self.selector, self.fields, self.refer = kind, name, selector, list(fields), refer
        self._sel = self._flds = None

    def render(self, renderer):
        tns = renderer.s.tns
        a = ' name="%s"' % self.name
        if self.kind == 'keyref':
            a += ' refer="%s"' % renderer.q(tns, self.refer.name)
        return '<xs:%s%s><xs:selector xpath="%s"/>%s</xs:%s>' % (self.kind, a, xg.xa(self.selector), ''.join('<xs:field xpath="%s"/>' % xg.xa(f) for f in self.fields), self.kind)

    def compiled(self):
        if self._sel is None:
            self._sel = parse_xpath(self.selector, False)
            self._flds = [parse_xpath(f, True) for f in self.fields]
        return self._sel, self._flds


PFX_NS = {'t': xg.T, 'u': xg.U, 'o': xg.O}
_ncname = r'[A-Za-z_][A-Za-z0-9_.-]*'


def parse_nametest(s):
    if s == '*':
        return ('any',)
    m = re.match(r'^(%s):\*$' % _ncname, s)
    if m:
        return ('nsany', PFX_NS[m.group(1)])
    m = re.match(r'^(?:(%s):)?(%s)$' % (_ncname, _ncname), s)
    if not m:
        raise ValueError('bad name test %r' % s)
    return ('name', PFX_NS[m.group(1)] if m.group(1) else None, m.group(2))


def parse_xpath(text, field):
    """-> list of (descendant_prefix, steps); step = ('self',) | ('child', nametest) | ('attr', nametest)"""
    paths = []
    for part in text.split('|'):
        p = part.strip()
        desc = False
        if p.startswith('.//'):
            desc = True
            p = p[3:]
        steps = []
        for st in [x.strip() for x in p.split('/')]:
            if st == '.':
                steps.append(('self',))
            elif st.startswith('@') or st.startswith('attribute::'):
                if not field:
                    raise ValueError('attribute step in selector')
                steps.append(('attr', parse_nametest(st[1:].strip() if st.startswith('@') else st[11:].strip())))
            else:
                if st.startswith('child::'):
                    st = st[7:].strip()
                steps.append(('child', parse_nametest(st)))
        for s_ in steps[:-1]:
            if s_[0] == 'attr':
                raise ValueError('attribute step must be last')
        paths.append((desc, steps))
    return paths


def nt_match(nt, ns, local):
    if nt[0] == 'any':
        return True
    if nt[0] == 'nsany':
        return ns == nt[1]
    return (ns, local) == (nt[1], nt[2])


def descendants_or_self(el, out=None):
    if out is None:
        out = []
    out.append(el)
    for k in el.elems():
        descendants_or_self(k, out)
    return out


def evaluate(paths, ctx):
    """nodes selected from element ctx: elements (El) or attributes ('attr', owner El, ns, local, value); no duplicates"""
    out = []
    seen = set()

    def add(n):
        k = id(n) if isinstance(n, xg.El) else (id(n[1]), n[2], n[3])
        if k not in seen:
            seen.add(k)
            out.append(n)
    for desc, steps in paths:
        cur = descendants_or_self(ctx) if desc else [ctx]
        for st in steps:
            nxt = []
            if st[0] == 'self':
                nxt = cur
            elif st[0] == 'child':
                for e in cur:
                    for k in e.elems():
                        if nt_match(st[1], k.ns, k.local):
                            nxt.append(k)
            else:
                for e in cur:
                    for (ns, local, v) in e.attrs:
                        if nt_match(st[1], ns, local):
                            nxt.append(('attr', e, ns, local, v))
            cur = nxt
        for n in cur:
            add(n)
    return out


def primitive(st):
    t = st
    while t.base is not None and t.base.simple and t.base is not xg.ANYSIMPLE:
        t = t.base
    return t.name


class Checker:
    """identity-constraint assessment of a structurally valid instance"""

    def __init__(self, schema):
        self.s = schema
        self.val = xg.Validator(schema)

    def check(self, root):
        """-> (violations [(kind, constraint name)], skips [reason]) ; the instance must be valid apart from identity constraints"""
        res = self.val.validate(root)
        if not res.valid:
            return None, ['structurally-invalid:' + ','.join(sorted(set(res.errors)))]
        self.viol = []
        self.skips = []
        self.feats = set()        # tags of the special situations met (only used to name disagreements)
        self.selected = {}        # (constraint name, id(target)) -> number of scope instances that selected the node
        self.nodeof = {}
        self.lex = {}
        for n in _nodes(res.root):
            self.nodeof[id(n.el)] = n
        self._walk(res.root)
        return self.viol, self.skips

    # value of a field node: (primitive type name, value) or None (no simple value)
    def field_value(self, n):
        if isinstance(n, xg.El):
            node = self.nodeof.get(id(n))
            if node is None or node.ctype is None:
                return None, 'unassessed'
            t = node.ctype
            st = t if t.simple else (t.stype if t.content == 'simple' else None)
            if st is None:
                return None, 'not-simple'
            if node.nilled:
                return None, 'nilled'
            text = node.text if node.text is not None else n.text()
            ok, v = xg.st_value(st, text)
            if not ok:
                return None, 'invalid'
            return (primitive(st), v), None
        _, owner, ns, local, v = n
        node = self.nodeof.get(id(owner))
        t = node.ctype if node is not None else None
        if t is None or t.simple:
            return None, 'unassessed'
        u = t.attrs.get((ns, local))
        st = u.decl.type if u is not None else None
        if st is None:
            g = self.s.gattrs.get((ns, local))
            st = g.type if g is not None else None
        if st is None:
            return None, 'unassessed'
        ok, val = xg.st_value(st, v)
        if not ok:
            return None, 'invalid'
        return (primitive(st), val), None

    def _walk(self, node):
        """returns node tables of the element: {ic name: {keyseq: El or None(conflict removed)}}"""
        child_tabs = [self._walk(k) for k in node.kids if k.assessed and k.decl is not None]
        tables = {}
        # propagate from children: entries with the same key-sequence from different nodes cancel
        for ct in child_tabs:
            for name, tab in ct.items():
                dst = tables.setdefault(name, {})
                for ks, nd in tab.items():
                    if ks in dst and dst[ks] is not nd:
                        dst[ks] = None
                        self.feats.add('propagation:conflicting-entries-dropped')
                    elif ks not in dst:
                        dst[ks] = nd
        for name in tables:
            tables[name] = {ks: nd for ks, nd in tables[name].items() if nd is not None}
        decl = node.decl
        el = node.el
        if decl is None:
            return tables
        own = {}
        for ic in decl.ics:
            if ic.kind == 'keyref':
                continue
            own[ic.name] = self._qualified(ic, el)
        for name, q in own.items():
            tab = dict((ks, nd) for ks, nd in tables.get(name, {}).items() if ks not in q)
            tab.update(q)
            tables[name] = tab
        for ic in decl.ics:
            if ic.kind != 'keyref':
                continue
            q = self._qualified(ic, el)
            tab = tables.get(ic.refer.name)
            if tab is None:
                self.feats.add('keyref:no-key-table' + ('+no-references' if not q else ''))
            for ks, nd in q.items():
                if tab is None:
                    self.viol.append(('keyref-no-table', ic.name))
                elif ks not in tab:
                    self.viol.append(('keyref-not-found', ic.name))
                else:
                    src = 'own' if ks in own.get(ic.refer.name, {}) else 'propagated'
                    self.feats.add('keyref:resolved-in-%s-table' % src)
                    if self.lex.get((ic.name, id(nd))) != self.lex.get((ic.refer.name, id(tab[ks]))):
                        self.feats.add('keyref:lexically-different')
        return tables

    def _qualified(self, ic, el):
        """qualified node set as {keyseq: node}; records violations of clauses 3 / 4.1 / 4.2"""
        sel, flds = ic.compiled()
        out = {}
        if not hasattr(self, 'lex'):
            self.lex = {}
        for target in evaluate(sel, el):
            ks = []
            lx = []
            complete = True
            n_sel = self.selected[(ic.name, id(target))] = self.selected.get((ic.name, id(target)), 0) + 1
            for f in flds:
                ns_ = evaluate(f, target)
                if n_sel > 1 and ns_:
                    self.feats.add('nested-scopes-select-same-node:%s-field' % ('element' if isinstance(ns_[0], xg.El) else 'attribute'))
                if len(ns_) > 1:
                    self.viol.append(('field-multiple-match', ic.name))               # clause 3
                    self.feats.add('field-multiple-match:%s' % ('elements' if isinstance(ns_[0], xg.El) else 'attributes'))
                    complete = False
                    break
                if not ns_:
                    complete = False
                    if ic.kind == 'key':
                        self.viol.append(('key-field-absent', ic.name))               # clause 4.2.1
                    continue
                v, why = self.field_value(ns_[0])
                if v is None:
                    if why == 'not-simple':
                        self.viol.append(('field-not-simple', ic.name))               # clause 3
                    elif why == 'nilled':
                        self.skips.append('nilled-field')
                    else:
                        self.skips.append('field-' + why)
                    complete = False
                    continue
                if ic.kind == 'key' and isinstance(ns_[0], xg.El):
                    nd = self.nodeof.get(id(ns_[0]))
                    if nd is not None and nd.decl is not None and nd.decl.nillable:
                        self.viol.append(('key-field-nillable', ic.name))             # clause 4.2.3
                ks.append(v)
                lx.append(ns_[0].text() if isinstance(ns_[0], xg.El) else ns_[0][4])
            if not complete:
                continue
            ks = tuple(ks)
            self.lex[(ic.name, id(target))] = tuple(lx)
            if ic.kind == 'keyref':
                out[ks] = target
            elif ks in out and out[ks] is not target:
                self.viol.append(('duplicate-' + ic.kind, ic.name))                   # clause 4.1 / 4.2.2
                self.feats.add('duplicate:lexically-%s:%s' % ('equal' if self.lex.get((ic.name, id(out[ks]))) == tuple(lx) else 'different', '+'.join(sorted(set(k[0] for k in ks)))))
            else:
                out[ks] = target
        return out


def _nodes(node, out=None):
    if out is None:
        out = []
    out.append(node)
    for k in node.kids:
        _nodes(k, out)
    return out
