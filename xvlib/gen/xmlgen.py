"""xmlgen: random *infoset* -> document text using the lexical freedoms of XML, plus the expected
observation computed from the infoset (not from the text).

Model (plain tuples/dicts):
  content node:  ('el', Element) | ('tx', str) | ('cd', str) | ('cm', str) | ('pi', target, data) | ('er', name)
  Element: dict(qname, prefix, local, uri, nsdecls=[(prefix, uri)], attrs=[Attr], children=[node])
  Attr: dict(qname, prefix, local, uri, atoms=[('c', ch) | ('e', entname)], type='CDATA'|..., specified=True)
"""
import random

XML_NS = 'http://www.w3.org/XML/1998/namespace'
XMLNS_NS = 'http://www.w3.org/2000/xmlns/'

# name characters legal in XML 1.0 4th edition AND 5th edition (and 1.1)
NAME_START = list('abcdefghijklmnopqrstuvwxyzABCDEFGHIJKLMNOPQRSTUVWXYZ_') + ['é', 'Ω', 'ж', '中', 'あ', 'ก']
NAME_CHAR = NAME_START + list('0123456789-.') + ['·', '́', '٣']

TEXT_CHARS_COMMON = list('abcXYZ019 ,;:!?()[]{}=+*/#@$^~|`\'"-._') + ['<', '>', '&', '\n', '\t', '\r', ' ', ' ', '\n']
TEXT_CHARS_WIDE = ['é', 'ÿ', 'Ā', 'Ω', 'ж', '中', '퟿', '', '�', '\U00010000', '\U0001f600', '\U0010ffff', '\u0085', ' ', ' ', '​']
C0_11 = ['\x01', '\x08', '\x0b', '\x0c', '\x0e', '\x1f', '\x7f', '\x80', '\x84', '\x86', '\x9f']   # only by reference, only in 1.1 (7f-9f: legal literal in 1.0)


class Ctx:
    def __init__(self, rnd, version='1.0', ns=True, dtd=True, wide=True, max_depth=4, max_children=4, latin1=False,
                 ents_in_attr=True, tok_charref_ws=False, extsubset=True, cdata=True, comments=True, pis=True, file_prefix=''):
        self.r = rnd
        self.version = version
        self.ns = ns
        self.dtd = dtd
        self.wide = wide and not latin1
        self.latin1 = latin1
        self.max_depth = max_depth
        self.max_children = max_children
        self.ents_in_attr = ents_in_attr
        self.tok_charref_ws = tok_charref_ws
        self.extsubset = extsubset
        self.cdata = cdata
        self.comments = comments
        self.pis = pis
        self.tags = set()
        self.entities = {}        # name -> dict(nodes=[...], textonly=bool, R=str)
        self.entity_order = []
        self.attdecls = {}        # elem qname -> {attr qname: dict(type, default_atoms or None, mode, enum)}
        self.attdecl_order = []
        self.notations = []
        self.unparsed = []
        self.elem_names = []
        self.uris = ['urn:a', 'http://example.org/b', 'urn:c:%C3%A9', 'x']
        self.counter = 0
        self.file_prefix = file_prefix
        self.external = False       # external DTD subset + external parsed entities (decided in gen_dtd)
        self.ext_files = {}         # relative system id -> bytes

    def name(self, maxlen=6):
        r = self.r
        if r.random() < 0.7:
            n = r.choice('abcdefghxyz') + ''.join(r.choice('abcdefgh0123-._') for _ in range(r.randint(0, maxlen - 1)))
        else:
            pool_s = [c for c in NAME_START if not self.latin1 or ord(c) < 256]
            pool_c = [c for c in NAME_CHAR if not self.latin1 or ord(c) < 256]
            n = r.choice(pool_s) + ''.join(r.choice(pool_c) for _ in range(r.randint(0, maxlen - 1)))
            self.tags.add('name-nonascii')
        if n.lower().startswith('xml'):
            n = 'q' + n
        return n

    def text_char(self):
        r = self.r
        x = r.random()
        if x < 0.75 or (not self.wide and x < 0.95):
            return r.choice(TEXT_CHARS_COMMON)
        if x < 0.95:
            c = r.choice(TEXT_CHARS_WIDE)
            if self.latin1 and ord(c) > 255:
                return 'z'
            return c
        if self.version == '1.1':
            self.tags.add('c0-charref-1.1')
            return r.choice(C0_11)
        return r.choice(['\x7f', '\x80', '\x9f'])

    def text(self, lo=0, hi=12):
        return ''.join(self.text_char() for _ in range(self.r.randint(lo, hi)))


# ---------------------------------------------------------------------------------------------------
#  generation of the infoset
# ---------------------------------------------------------------------------------------------------
def gen_document(cx):
    r = cx.r
    doc = {'version': cx.version, 'standalone': None, 'doctype': None, 'prolog': [], 'epilog': [], 'xmldecl': r.random() < 0.7 or cx.version == '1.1'}
    # vocabulary
    nel = r.randint(2, 6)
    seen = set()
    while len(cx.elem_names) < nel:
        n = cx.name()
        if n not in seen and ':' not in n:
            seen.add(n)
            cx.elem_names.append(n)
    if cx.dtd:
        gen_dtd(cx, doc)
    scope = [{'xml': XML_NS}]
    doc['root'] = gen_element(cx, 0, scope, root=True)
    if cx.dtd:
        doc['doctype']['name'] = doc['root']['qname']
    for where in ('prolog', 'epilog'):
        for _ in range(r.choice([0, 0, 1, 2])):
            doc[where].append(gen_misc(cx))
    return doc


def gen_misc(cx):
    r = cx.r
    if r.random() < 0.5 and cx.comments:
        return ('cm', gen_comment_text(cx))
    if cx.pis:
        return gen_pi(cx)
    return ('cm', 'c')


def plain(cx, t):
    """restrict text to what can appear literally (no reference syntax available: comments, PIs, CDATA)"""
    t = t.replace('\r', ' ')
    if cx.version == '1.1':
        for c in C0_11 + ['\u0085', '\u2028']:
            t = t.replace(c, '')
    return t


def gen_comment_text(cx):
    t = plain(cx, cx.text(0, 10))
    t = t.replace('--', '- ')
    if t.endswith('-'):
        t += ' '
    return t


def gen_pi(cx):
    tgt = cx.name()
    while tgt.lower() == 'xml' or ':' in tgt:
        tgt = cx.name()
    d = plain(cx, cx.text(0, 8)).replace('?>', '? >')
    d = d.lstrip(' \t\n')
    return ('pi', tgt, d)


ATT_TYPES = ['CDATA', 'CDATA', 'NMTOKEN', 'NMTOKENS', 'ID', 'IDREF', 'ENUM']


def gen_dtd(cx, doc):
    r = cx.r
    dt = {'name': None, 'pubid': None, 'sysid': None, 'internal': [], 'external': None}
    doc['doctype'] = dt
    if cx.extsubset and r.random() < 0.45:
        cx.external = True
        dt['sysid'] = cx.file_prefix + 'ext.dtd'
        dt['pubid'] = r.choice([None, None, '-//XV//DTD gen 1.0//EN'])
        cx.tags.add('external-subset')
    # general entities
    for i in range(r.randint(0, 4)):
        name = 'e' + cx.name(3) + str(i)
        textonly = r.random() < 0.6
        ent = {'name': name, 'textonly': textonly}
        if textonly:
            t = cx.text(0, 8)
            nodes = [('tx', t)] if t else []
            # nested reference to an earlier text-only entity
            prev = [e for e in cx.entity_order if cx.entities[e]['textonly']]
            if prev and r.random() < 0.4:
                nodes.append(('er', r.choice(prev)))
                nodes.append(('tx', cx.text(0, 3)))
                cx.tags.add('entity-nested')
            ent['nodes'] = [n for n in nodes if not (n[0] == 'tx' and n[1] == '')]
        else:
            ent['nodes'] = None      # filled later (needs element generator); content entity
        ent['external'] = bool(cx.external and not textonly and r.random() < 0.6)
        cx.entities[name] = ent
        cx.entity_order.append(name)
    # attribute declarations with defaults
    idtaken = set()
    for en in cx.elem_names:
        if r.random() < 0.6:
            decl = {}
            for j in range(r.randint(1, 3)):
                an = cx.name(4)
                if an in decl or an.startswith('xmlns') or ':' in an:
                    continue
                ty = r.choice(ATT_TYPES)
                if ty == 'ID' and (en in idtaken):
                    ty = 'CDATA'
                d = {'type': ty, 'enum': None, 'mode': r.choice(['#IMPLIED', 'default', 'default', '#FIXED']), 'default': None}
                if ty == 'ID':
                    idtaken.add(en)
                    d['mode'] = '#IMPLIED'
                if ty == 'ENUM':
                    d['enum'] = ['v' + str(k) for k in range(r.randint(1, 3))]
                if d['mode'] in ('default', '#FIXED'):
                    d['default'] = gen_attr_atoms(cx, ty, d['enum'], in_dtd=True)
                decl[an] = d
            if decl:
                cx.attdecls[en] = decl
                cx.attdecl_order.append(en)
    if r.random() < 0.4:
        cx.notations.append({'name': 'n' + cx.name(3), 'pubid': r.choice([None, 'pub id-1']), 'sysid': r.choice(['sys.not', None])})
        n = cx.notations[0]
        if n['pubid'] is None and n['sysid'] is None:
            n['sysid'] = 's'
        if r.random() < 0.6:
            cx.unparsed.append({'name': 'u' + cx.name(3), 'pubid': None, 'sysid': 'file:///xv/u.bin', 'ndata': n['name']})
        cx.tags.add('notation')


def gen_attr_atoms(cx, ty, enum=None, in_dtd=False):
    """atoms of the *normalized* value"""
    r = cx.r
    if ty == 'CDATA':
        atoms = []
        for _ in range(r.randint(0, 8)):
            c = cx.text_char()
            atoms.append(('c', c))
        if cx.ents_in_attr and not in_dtd and r.random() < 0.25:
            cands = [e for e in cx.entity_order if cx.entities[e]['textonly'] and '<' not in entity_R_expanded_chars(cx, e)]
            if cands:
                atoms.insert(r.randint(0, len(atoms)), ('e', r.choice(cands)))
                cx.tags.add('entity-in-attr')
        return atoms
    if ty == 'ENUM':
        return [('c', c) for c in r.choice(enum)]
    ntok = r.randint(1, 3) if ty in ('NMTOKENS',) else 1
    toks = []
    for _ in range(ntok):
        toks.append(cx.name(4) if ty in ('ID', 'IDREF') else ''.join(r.choice('ab01-._:') for _ in range(r.randint(1, 4))))
    return [('c', c) for c in ' '.join(toks)]


def entity_R_expanded_chars(cx, name, depth=0):
    """set-ish string of characters the text-only entity expands to (used to keep '<' out of attribute values)"""
    e = cx.entities[name]
    out = ''
    for n in e['nodes'] or []:
        if n[0] == 'tx':
            out += n[1]
        elif n[0] == 'er' and depth < 10:
            out += entity_R_expanded_chars(cx, n[1], depth + 1)
    return out


def gen_element(cx, depth, scope, root=False):
    r = cx.r
    local = r.choice(cx.elem_names)
    el = {'nsdecls': [], 'attrs': [], 'children': [], 'prefix': None, 'local': local, 'uri': None}
    inscope = dict(scope[-1])
    if cx.ns:
        # declarations on this element
        for _ in range(r.choice([0, 0, 1, 1, 2, 3] if not root else [1, 2, 3])):
            if r.random() < 0.35:
                p = ''
                u = r.choice(cx.uris + [''])
                if u == '':
                    cx.tags.add('xmlns-undeclare-default')
            else:
                p = r.choice(['p', 'q', 'r', 'p1', cx.name(3)])
                if p.lower().startswith('xml') or ':' in p:
                    p = 'pp'
                u = r.choice(cx.uris)
                if cx.version == '1.1' and r.random() < 0.1 and p in inscope:
                    u = ''
                    cx.tags.add('xmlns-undeclare-prefix-1.1')
            if any(p == d[0] for d in el['nsdecls']):
                continue
            el['nsdecls'].append((p, u))
            if u == '':
                inscope.pop(p, None)
            else:
                if p in inscope:
                    cx.tags.add('ns-shadow')
                inscope[p] = u
        prefs = [p for p in inscope if p not in ('', 'xml')]
        if prefs and r.random() < 0.5:
            el['prefix'] = r.choice(prefs)
            el['uri'] = inscope[el['prefix']]
        else:
            el['uri'] = inscope.get('')
    el['qname'] = (el['prefix'] + ':' + local) if el['prefix'] else local
    # attributes
    decl = cx.attdecls.get(el['qname'], {}) if cx.dtd else {}
    used = set()
    expanded = set()
    for _ in range(r.choice([0, 0, 1, 1, 2, 3, 5])):
        if decl and r.random() < 0.5:
            an = r.choice(list(decl))
            d = decl[an]
            prefix = None
        else:
            an = cx.name(4)
            d = None
            prefix = None
            if cx.ns and r.random() < 0.3:
                prefs = [p for p in inscope if p not in ('',)]
                if prefs:
                    prefix = r.choice(prefs)
            if an in decl:
                d = decl[an]
                prefix = None
        if an.startswith('xmlns') or ':' in an:
            continue
        qn = (prefix + ':' + an) if prefix else an
        uri = inscope[prefix] if prefix else None
        if qn in used or (uri, an) in expanded:
            continue
        used.add(qn)
        expanded.add((uri, an))
        ty = d['type'] if d else 'CDATA'
        if d and d['mode'] == '#FIXED':
            atoms = list(d['default'])
        else:
            atoms = gen_attr_atoms(cx, ty, d['enum'] if d else None)
        if ty == 'ID':
            cx.counter += 1
            atoms = [('c', c) for c in 'id%d' % cx.counter]
        el['attrs'].append({'qname': qn, 'prefix': prefix, 'local': an, 'uri': uri, 'atoms': atoms, 'type': ty, 'specified': True})
    if cx.ns and r.random() < 0.1 and 'xml:lang' not in used:
        el['attrs'].append({'qname': 'xml:lang', 'prefix': 'xml', 'local': 'lang', 'uri': XML_NS, 'atoms': [('c', 'e'), ('c', 'n')], 'type': 'CDATA', 'specified': True})
        cx.tags.add('xml-prefix')
    # defaults from the DTD
    for an, d in decl.items():
        if d['default'] is not None and an not in used:
            el['attrs'].append({'qname': an, 'prefix': None, 'local': an, 'uri': None, 'atoms': list(d['default']), 'type': d['type'], 'specified': False})
            cx.tags.add('attr-default')
    # children
    scope.append(inscope)
    if depth < cx.max_depth:
        for _ in range(r.randint(0, cx.max_children)):
            x = r.random()
            if x < 0.35:
                el['children'].append(('el', gen_element(cx, depth + 1, scope)))
            elif x < 0.65:
                t = cx.text(1, 14)
                el['children'].append(('tx', t))
            elif x < 0.72 and cx.cdata:
                t = plain(cx, cx.text(0, 8))
                el['children'].append(('cd', t))
                cx.tags.add('cdata')
            elif x < 0.8 and cx.comments:
                el['children'].append(('cm', gen_comment_text(cx)))
            elif x < 0.86 and cx.pis:
                el['children'].append(gen_pi(cx))
            elif x < 0.95 and cx.dtd and cx.entity_order:
                en = r.choice(cx.entity_order)
                e = cx.entities[en]
                if e['nodes'] is None:
                    # content entity: balanced content generated in the scope of its first use; to stay
                    # namespace-safe it uses no prefixes/declarations of its own
                    sub = Ctx(r, cx.version, ns=False, dtd=False, wide=cx.wide, max_depth=1, max_children=3, latin1=cx.latin1, cdata=cx.cdata, comments=cx.comments, pis=cx.pis)
                    sub.elem_names = [n for n in cx.elem_names if n not in cx.attdecls] or ['zz']
                    nodes = []
                    for _k in range(r.randint(0, 3)):
                        if r.random() < 0.5:
                            ce = gen_element(sub, 0, [dict()])
                            ce['uri'] = None
                            nodes.append(('el', ce))
                        else:
                            nodes.append(('tx', cx.text(1, 6)))
                    e['nodes'] = nodes
                    e['defscope_default'] = None
                    cx.tags.update(sub.tags)
                    cx.tags.add('entity-content-markup')
                el['children'].append(('er', en))
                cx.tags.add('entity-ref')
            else:
                el['children'].append(('tx', cx.text(1, 4)))
    scope.pop()
    return el


def cdata_sections(t):
    """split at ']]>' so that each section is legal; the split point lies between ']]' and '>'"""
    parts = t.split(']]>')
    o = []
    for i, p in enumerate(parts):
        if i > 0:
            p = '>' + p
        if i < len(parts) - 1:
            p = p + ']]'
        o.append(p)
    return o


# ---------------------------------------------------------------------------------------------------
#  rendering with lexical freedoms
# ---------------------------------------------------------------------------------------------------
class Renderer:
    def __init__(self, cx, doc):
        self.cx = cx
        self.r = cx.r
        self.doc = doc
        self.out = []
        self.spans = []       # (kind, start, end) in characters of the final string
        self.pos = 0
        self.line = 1
        self.elem_lines = []  # line number (after normalisation rules) at the end of each start tag, in document order

    def w(self, s):
        self.out.append(s)
        self.pos += len(s)

    def mark(self, kind, start):
        self.spans.append((kind, start, self.pos))

    def ws(self, need=False):
        r = self.r
        k = r.choice([0, 0, 0, 1, 2]) if not need else r.choice([1, 1, 1, 2, 3])
        self.w(''.join(r.choice([' ', ' ', ' ', '\t', '\n', '\r\n', '\r'] + (['\u0085', ' ', '\r\u0085'] if False else [])) for _ in range(k)))

    def eols(self, t):
        """render the line feeds of t with the freedoms of eol()"""
        return ''.join(self.eol(t[i + 1:i + 2] == '\n') if c == '\n' else c for i, c in enumerate(t))

    def eol(self, next_is_lf=False):
        """a line end in character data: any of the forms that normalise to LF"""
        r = self.r
        if next_is_lf:
            return r.choice(['\n', '\r\n'])      # a bare CR would merge with the following LF
        forms = ['\n', '\n', '\r\n', '\r']
        if self.cx.version == '1.1' and not self.cx.latin1:
            forms += ['\u0085', ' ', '\r\u0085']
        f = r.choice(forms)
        if f != '\n':
            self.cx.tags.add('eol-' + '-'.join('%x' % ord(c) for c in f))
        return f

    def charref(self, c):
        r = self.r
        o = ord(c)
        x = r.random()
        if x < 0.4:
            return '&#%d;' % o
        if x < 0.8:
            return '&#x%x;' % o
        return '&#x%s;' % ('%X' % o).zfill(r.randint(1, 6))

    def text(self, t, in_entity=False):
        """character data"""
        r = self.r
        o = []
        prev2 = ''
        for idx, c in enumerate(t):
            oc = ord(c)
            if c == '<':
                s = r.choice(['&lt;', '&lt;', self.charref(c)])
            elif c == '&':
                s = r.choice(['&amp;', '&amp;', self.charref(c)])
            elif c == '>':
                s = '&gt;' if (prev2.endswith(']]') or r.random() < 0.3) else '>'
                if s != '>' and r.random() < 0.3:
                    s = self.charref(c)
            elif c == '\r':
                s = self.charref(c)
                self.cx.tags.add('cr-charref')
            elif c == '\n':
                s = self.eol(t[idx + 1:idx + 2] == '\n' or idx == len(t) - 1) if r.random() < 0.85 else self.charref(c)
            elif c in ('\u0085', ' ') and self.cx.version == '1.1':
                s = self.charref(c)           # literal would be normalised to LF
                self.cx.tags.add('nel-ls-charref-1.1')
            elif oc < 0x20 and c != '\t' or (0x7f <= oc <= 0x9f and self.cx.version == '1.1'):
                s = self.charref(c)
            elif c == '"' and r.random() < 0.3:
                s = '&quot;'
            elif c == "'" and r.random() < 0.3:
                s = '&apos;'
            elif r.random() < 0.06 or (self.cx.latin1 and oc > 255):
                s = self.charref(c)
                self.cx.tags.add('charref')
            else:
                s = c
            o.append(s)
            prev2 = (prev2 + s)[-2:]
        return ''.join(o)

    def cdata(self, t):
        res = []
        for p in cdata_sections(t):
            res.append('<![CDATA[' + self.eols(p) + ']]>')
        return res

    def attvalue(self, atoms, ty, quote=None):
        r = self.r
        q = quote or r.choice(['"', '"', "'"])
        o = []
        toks_ws = ty not in ('CDATA',)
        if toks_ws and r.random() < 0.3:
            o.append(' ' * r.randint(1, 2))
            self.cx.tags.add('tokenized-extra-space')
        for a in atoms:
            if a[0] == 'e':
                o.append('&' + a[1] + ';')
                continue
            c = a[1]
            oc = ord(c)
            if c == '<':
                s = r.choice(['&lt;', self.charref(c)])
            elif c == '&':
                s = r.choice(['&amp;', self.charref(c)])
            elif c == q:
                s = ('&quot;' if q == '"' else '&apos;') if r.random() < 0.6 else self.charref(c)
            elif c in '\t\n\r':
                s = self.charref(c)
                self.cx.tags.add('attr-ws-charref')
            elif c == ' ':
                if toks_ws:
                    s = ' ' * r.choice([1, 1, 2, 3])
                else:
                    s = r.choice([' ', ' ', ' ', '\t', '\n', '\r', '\r\n'])
                    if o and o[-1].endswith('\r') and s.startswith('\n'):
                        s = ' '       # CR LF would merge into a single line end
                    if s != ' ':
                        self.cx.tags.add('attr-ws-literal')
            elif c in ('\u0085', ' ') and self.cx.version == '1.1':
                s = self.charref(c)
            elif oc < 0x20 or (0x7f <= oc <= 0x9f and self.cx.version == '1.1'):
                s = self.charref(c)
            elif r.random() < 0.06 or (self.cx.latin1 and oc > 255):
                s = self.charref(c)
            else:
                s = c
            o.append(s)
        if toks_ws and r.random() < 0.3:
            o.append(' ' * r.randint(1, 2))
        return q + ''.join(o) + q

    # ---- entity literal -----------------------------------------------------------------------
    def entity_literal(self, R):
        """EntityValue whose replacement text is exactly R"""
        r = self.r
        q = r.choice(['"', "'"])
        o = []
        for c in R:
            if c == '&':
                s = '&#38;'
            elif c == '%':
                s = '&#37;'
            elif c == q:
                s = '&#34;' if q == '"' else '&#39;'
            elif self.cx.latin1 and ord(c) > 255:
                s = '&#x%x;' % ord(c)
            elif r.random() < 0.05 and c not in '<\r\n\u0085\u2028':
                s = '&#%d;' % ord(c)
            else:
                s = c
            o.append(s)
        return q + ''.join(o) + q

    def content_string(self, nodes):
        """render content nodes to a string (used for entity replacement text)"""
        sub = Renderer(self.cx, self.doc)
        sub.nodes(nodes)
        return ''.join(sub.out)

    # ---- nodes --------------------------------------------------------------------------------
    def nodes(self, nodes):
        for n in nodes:
            k = n[0]
            st = self.pos
            if k == 'el':
                self.element(n[1])
            elif k == 'tx':
                self.w(self.text(n[1]))
                self.mark('text', st)
            elif k == 'cd':
                for s in self.cdata(n[1]):
                    self.w(s)
                self.mark('cdata', st)
            elif k == 'cm':
                self.w('<!--' + self.eols(n[1]) + '-->')
                self.mark('comment', st)
            elif k == 'pi':
                d = self.eols(n[2])
                self.w('<?' + n[1] + ((self.r.choice([' ', '\t', '  ', '\n']) + d) if d else self.r.choice(['', ' '])) + '?>')
                self.mark('pi', st)
            elif k == 'er':
                self.w('&' + n[1] + ';')
                self.mark('entref', st)

    def element(self, el):
        r = self.r
        st = self.pos
        self.w('<' + el['qname'])
        items = []
        for p, u in el['nsdecls']:
            items.append(('xmlns:' + p if p else 'xmlns', [('c', c) for c in u], 'CDATA'))
        for a in el['attrs']:
            if a['specified']:
                items.append((a['qname'], a['atoms'], a['type']))
        r.shuffle(items)
        for qn, atoms, ty in items:
            self.ws(need=True)
            ast = self.pos
            self.w(qn)
            self.ws()
            self.w('=')
            self.ws()
            self.w(self.attvalue(atoms, ty))
            self.mark('attr', ast)
        self.ws()
        if not el['children'] and r.random() < 0.5:
            self.w('/>')
            self.mark('emptytag', st)
            return
        self.w('>')
        self.mark('starttag', st)
        self.nodes(el['children'])
        est = self.pos
        self.w('</' + el['qname'])
        self.ws()
        self.w('>')
        self.mark('endtag', est)

    # ---- document -----------------------------------------------------------------------------
    def document(self, encoding):
        cx, r, doc = self.cx, self.r, self.doc
        if doc['xmldecl'] or encoding not in (None, 'UTF-8', 'UTF-16'):
            st = self.pos
            q = r.choice(['"', "'"])
            s = '<?xml version=' + q + doc['version'] + q
            if encoding and (r.random() < 0.7 or encoding not in ('UTF-8', 'UTF-16')):
                q = r.choice(['"', "'"])
                s += r.choice([' ', '  ']) + 'encoding=' + q + encoding + q
            if doc['standalone'] is not None:
                s += ' standalone="' + doc['standalone'] + '"'
            s += r.choice(['', ' ']) + '?>'
            self.w(s)
            self.mark('xmldecl', st)
        self.w(r.choice(['', '\n', '\r\n', ' ']))
        pro = list(doc['prolog'])
        k = r.randint(0, len(pro))
        doc['prolog_split'] = k
        self.nodes_misc(pro[:k])
        if doc['doctype']:
            self.doctype(doc['doctype'])
        self.nodes_misc(pro[k:])
        self.element(doc['root'])
        self.nodes_misc(doc['epilog'], lead=True)
        return ''.join(self.out)

    def nodes_misc(self, nodes, lead=False):
        for n in nodes:
            if lead:
                self.ws()
            self.nodes([n])
            self.ws()

    def doctype(self, dt):
        cx, r = self.cx, self.r
        st = self.pos
        self.w('<!DOCTYPE ' + dt['name'])
        if dt['sysid']:
            if dt['pubid']:
                self.w(' PUBLIC "' + dt['pubid'] + '" "' + dt['sysid'] + '"')
            else:
                self.w(' SYSTEM "' + dt['sysid'] + '"')
        decls = []
        for en in cx.entity_order:
            e = cx.entities[en]
            if e['nodes'] is None:
                e['nodes'] = []
            e['R'] = self.content_string(e['nodes'])
            if e.get('external'):
                # external parsed entity: its own file, own encoding, optional text declaration
                enc = r.choice(['UTF-8', 'UTF-8', 'ISO-8859-1', 'UTF-16']) if not cx.latin1 else r.choice(['ISO-8859-1', 'UTF-8'])
                body = e['R']
                try:
                    body.encode('latin-1' if enc == 'ISO-8859-1' else 'utf-8', 'surrogatepass')
                except UnicodeEncodeError:
                    enc = 'UTF-8'
                td = ''
                if enc != 'UTF-8' or cx.version == '1.1' or r.random() < 0.4:
                    td = '<?xml' + (' version="%s"' % cx.version if (cx.version == '1.1' or r.random() < 0.5) else '') + ' encoding="%s"?>' % enc
                fname = cx.file_prefix + 'ent-%s.xml' % len(cx.ext_files)
                raw = (td + body)
                cx.ext_files[fname] = (b'\xff\xfe' + raw.encode('utf-16-le', 'surrogatepass')) if enc == 'UTF-16' else raw.encode('latin-1' if enc == 'ISO-8859-1' else 'utf-8', 'surrogatepass')
                decls.append(('ent', '<!ENTITY ' + en + r.choice([' SYSTEM "%s"' % fname, ' PUBLIC "-//XV//ENT %s//EN" "%s"' % (len(cx.ext_files), fname)]) + '>'))
                cx.tags.add('external-entity-' + enc)
                continue
            decls.append(('ent', '<!ENTITY' + r.choice([' ', '  ', '\n']) + en + ' ' + self.entity_literal(e['R']) + r.choice(['', ' ']) + '>'))
        for en in cx.attdecl_order:
            parts = []
            for an, d in cx.attdecls[en].items():
                ty = d['type'] if d['type'] != 'ENUM' else '(' + r.choice(['|', ' | ']).join(d['enum']) + ')'
                if d['mode'] == '#IMPLIED':
                    dflt = '#IMPLIED'
                elif d['mode'] == '#FIXED':
                    dflt = '#FIXED ' + self.attvalue(d['default'], d['type'])
                else:
                    dflt = self.attvalue(d['default'], d['type'])
                parts.append(' ' + an + ' ' + ty + ' ' + dflt)
            if r.random() < 0.5 or len(parts) == 1:
                decls.append(('att', '<!ATTLIST ' + en + r.choice(['', '\n ']).join(parts) + '>'))
            else:
                for p in parts:
                    decls.append(('att', '<!ATTLIST ' + en + p + '>'))
        for n in cx.notations:
            ext = ('PUBLIC "' + n['pubid'] + '"' + (' "' + n['sysid'] + '"' if n['sysid'] else '')) if n['pubid'] else 'SYSTEM "' + n['sysid'] + '"'
            decls.append(('not', '<!NOTATION ' + n['name'] + ' ' + ext + '>'))
        for u in cx.unparsed:
            decls.append(('unp', '<!ENTITY ' + u['name'] + ' SYSTEM "' + u['sysid'] + '" NDATA ' + u['ndata'] + '>'))
        if r.random() < 0.3:
            decls.append(('cm', '<!-- dtd comment -->'))
        if r.random() < 0.3:
            decls.append(('el', '<!ELEMENT ' + cx.elem_names[0] + ' ANY>'))
        # entities must be declared before attlist defaults that use them: we do not use entities in defaults
        ents = [d for d in decls if d[0] == 'ent']
        rest = [d for d in decls if d[0] != 'ent']
        r.shuffle(rest)
        # keep entity declaration order (nested references need the referenced entity declared first)
        allp = []
        ri = iter(rest)
        for e in ents:
            allp.append(e)
            if r.random() < 0.5:
                try:
                    allp.append(next(ri))
                except StopIteration:
                    pass
        allp += list(ri)
        pe_used = False
        if cx.external:
            # split the declarations between the internal subset (read first) and the external subset
            internal, external = [], []
            for d in allp:
                (internal if r.random() < 0.5 else external).append(d)
            # a declaration repeated in the external subset loses against the internal one (first declaration binds)
            for d in internal:
                if d[0] == 'ent' and 'SYSTEM' not in d[1] and 'PUBLIC' not in d[1] and r.random() < 0.3:
                    nm = d[1].split()[1]
                    external.insert(r.randint(0, len(external)), ('dup', '<!ENTITY %s "LOSER">' % nm))
                    cx.tags.add('duplicate-decl-first-wins')
            parts = []
            if r.random() < 0.5:
                parts.append('<?xml' + r.choice(['', ' version="%s"' % cx.version]) + ' encoding="UTF-8"?>')
            i = 0
            while i < len(external):
                k = r.randint(1, 3)
                grp = ''.join(r.choice(['', '\n', ' ']) + x[1] for x in external[i:i + k])
                i += k
                x = r.random()
                if x < 0.25:
                    grp = '<![INCLUDE[' + grp + r.choice(['', '<![IGNORE[ <!ENTITY zzignored "&undefined;"> ]]>']) + ']]>'
                    cx.tags.add('conditional-include')
                elif x < 0.4:
                    grp = '<!ENTITY %% cs%d "INCLUDE"><![%%cs%d;[' % (i, i) + grp + ']]>'
                    cx.tags.add('conditional-pe')
                elif x < 0.5:
                    grp = grp + '<![IGNORE[ <!ATTLIST %s zzign CDATA "never"> <![INCLUDE[ x ]]> ]]>' % cx.elem_names[0]
                    cx.tags.add('conditional-ignore')
                parts.append(grp)
            extsub = '\n'.join(parts)
            cx.ext_files[cx.file_prefix + 'ext.dtd'] = extsub.encode('utf-8', 'surrogatepass')
            allp = internal
        if allp or r.random() < 0.5:
            self.w(r.choice([' ', '']) + '[')
            for kind, s in allp:
                self.w(r.choice(['', '\n', ' ', '\n  ']))
                if kind in ('att', 'not') and r.random() < 0.15 and not pe_used:
                    # declaration delivered through a parameter entity
                    pe_used = True
                    cx.tags.add('pe-decl')
                    self.w('<!ENTITY % pe1 ' + self.entity_literal(s) + '>' + r.choice(['', '\n']) + '%pe1;')
                else:
                    self.w(s)
            self.w(r.choice(['', '\n']) + ']')
        self.ws()
        self.w('>')
        self.mark('doctype', st)
        self.ws()


# ---------------------------------------------------------------------------------------------------
#  expected observation
# ---------------------------------------------------------------------------------------------------
def attr_expand_R(cx, R, depth=0):
    """value contributed to an attribute by the replacement text R of an internal entity (XML 3.3.3)"""
    out = []
    i = 0
    if depth == 0 or True:
        # the literal was subject to line-end normalisation when the declaration was read
        R = R.replace('\r\n', '\n')
        if cx.version == '1.1':
            R = R.replace('\r\u0085', '\n').replace('\u0085', '\n').replace('\u2028', '\n')
        R = R.replace('\r', '\n')
    n = len(R)
    while i < n:
        c = R[i]
        if c == '&':
            j = R.index(';', i)
            ref = R[i + 1:j]
            if ref.startswith('#x'):
                out.append(chr(int(ref[2:], 16)))
            elif ref.startswith('#'):
                out.append(chr(int(ref[1:])))
            elif ref in ('lt', 'gt', 'amp', 'quot', 'apos'):
                out.append({'lt': '<', 'gt': '>', 'amp': '&', 'quot': '"', 'apos': "'"}[ref])
            else:
                out.append(attr_expand_R(cx, cx.entities[ref]['R'], depth + 1))
            i = j + 1
        elif c in '\t\n\r':
            out.append(' ')
            i += 1
        elif c in ('\u0085', ' ') and cx.version == '1.1':
            out.append(' ')
            i += 1
        else:
            out.append(c)
            i += 1
    return ''.join(out)


def attr_value(cx, a):
    v = ''.join(x[1] if x[0] == 'c' else attr_expand_R(cx, cx.entities[x[1]]['R']) for x in a['atoms'])
    if a['type'] != 'CDATA':
        v = ' '.join(t for t in v.split(' ') if t != '')
    return v


def expected_events(cx, doc):
    """list of tuples in the common form (see chk/parsecmp.py); element URIs are computed from the
    declarations in scope at the place where the element is reported (matters for entity content)"""
    ev = []
    scope = [{'xml': XML_NS}]

    def content(nodes):
        for n in nodes:
            k = n[0]
            if k == 'el':
                element(n[1])
            elif k == 'tx':
                ev.append(('CH', n[1]))
            elif k == 'cd':
                for sec in cdata_sections(n[1]):
                    ev.append(('CD0',))
                    ev.append(('CH', sec))
                    ev.append(('CD1',))
            elif k == 'cm':
                ev.append(('CM', n[1]))
            elif k == 'pi':
                ev.append(('PI', n[1], n[2]))
            elif k == 'er':
                ev.append(('SER', n[1]))
                content(cx.entities[n[1]]['nodes'])
                ev.append(('EER', n[1]))

    def element(el):
        ins = dict(scope[-1])
        for p, u in el['nsdecls']:
            if u == '':
                ins.pop(p, None)
            else:
                ins[p] = u
        scope.append(ins)
        uri = (ins.get(el['prefix']) if el['prefix'] else ins.get('')) if cx.ns else None
        attrs = []
        for a in el['attrs']:
            auri = ins.get(a['prefix']) if (cx.ns and a['prefix']) else None
            attrs.append((a['qname'], auri, a['local'], attr_value(cx, a), a['specified'], a['type']))
        for p, u in el['nsdecls']:
            attrs.append((('xmlns:' + p) if p else 'xmlns', XMLNS_NS, p if p else 'xmlns', u, True, 'CDATA'))
        attrs.sort(key=lambda t: t[0])
        ev.append(('SE', el['qname'], uri, el['local'], tuple(attrs), tuple(el['nsdecls'])))
        content(el['children'])
        ev.append(('EE', el['qname'], uri, el['local'], tuple(el['nsdecls'])))
        scope.pop()

    ev.append(('SD',))
    if doc['doctype']:
        # prolog nodes are rendered around the DOCTYPE: the renderer records the split
        k = doc.get('prolog_split', 0)
        content(doc['prolog'][:k])
        ev.append(('DT', doc['doctype']['name'], doc['doctype']['pubid'], doc['doctype']['sysid']))
        ev.append(('EDT',))
        content(doc['prolog'][k:])
    else:
        content(doc['prolog'])
    element(doc['root'])
    content(doc['epilog'])
    ev.append(('ED',))
    return ev


ENCODINGS = {
    'UTF-8': ('utf-8', b''), 'UTF-8-BOM': ('utf-8', b'\xef\xbb\xbf'),
    'UTF-16LE': ('utf-16-le', b'\xff\xfe'), 'UTF-16BE': ('utf-16-be', b'\xfe\xff'),
    'ISO-8859-1': ('latin-1', b''),
}


def make(rnd, version=None, ns=None, dtd=None, encoding=None, **kw):
    """returns dict(bytes, text, cx, doc, spans, encoding)"""
    r = rnd
    version = version or r.choice(['1.0', '1.0', '1.0', '1.1'])
    ns = r.random() < 0.7 if ns is None else ns
    dtd = r.random() < 0.5 if dtd is None else dtd
    encoding = encoding or r.choice(['UTF-8', 'UTF-8', 'UTF-8', 'UTF-8-BOM', 'UTF-16LE', 'UTF-16BE', 'ISO-8859-1'])
    cx = Ctx(r, version=version, ns=ns, dtd=dtd, latin1=(encoding == 'ISO-8859-1'), **kw)
    doc = gen_document(cx)
    rd = Renderer(cx, doc)
    declname = {'UTF-8': 'UTF-8', 'UTF-8-BOM': 'UTF-8', 'UTF-16LE': 'UTF-16', 'UTF-16BE': 'UTF-16', 'ISO-8859-1': 'ISO-8859-1'}[encoding]
    if encoding == 'UTF-8' and r.random() < 0.5:
        declname = None
    text = rd.document(declname)
    codec, bom = ENCODINGS[encoding]
    data = bom + text.encode(codec, 'surrogatepass')
    cx.tags.add('enc-' + encoding)
    cx.tags.add('v' + version)
    if ns:
        cx.tags.add('ns')
    if dtd:
        cx.tags.add('dtd')
    ents = [('file:///xv/' + k, v) for k, v in cx.ext_files.items()]
    return {'bytes': data, 'text': text, 'cx': cx, 'doc': doc, 'spans': rd.spans, 'encoding': encoding, 'codec': codec, 'bom': bom, 'ents': ents}
