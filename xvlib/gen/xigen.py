"""XInclude workload: generator of file graphs and reference expansion on the model of the graph.

A graph is  files: {relative path -> bytes}  +  root: relative path of the document that is parsed.  Directory entries
are implied by the paths.  URIs in the model are absolute paths below the virtual root VROOT (the checker maps the
scratch directory of a run onto it).

Reference (XInclude 1.0 second edition, sections 3, 4.1-4.5), restricted to what property C20 states:
  * xi:include parse="xml"  -> the top-level nodes (document element, comments, PIs; no DOCTYPE) of the designated
    document, recursively processed; href resolved against the base URI of the xi:include element;
  * xi:include parse="text" -> one text node with the decoded resource (encoding attribute, default UTF-8);
  * a resource that cannot be obtained (missing file, unsupported encoding) -> the recursively processed children of
    the xi:fallback child, or a fatal error when there is none;
  * fatal: inclusion loop (target is being processed at a higher level, the parsed document included), unknown parse
    value, xpointer with parse="text", more than one xi:fallback, an xi:* child other than xi:fallback, xi:fallback
    whose parent is not xi:include, no href and no xpointer, a fragment identifier in href, a document element replaced
    by something that is not exactly one element (+ comments / PIs), text resources that cannot be decoded or hold
    characters not allowed in XML;
  * every element of the result carries the base URI it had where it came from (XML Base: document URI modified by the
    xml:base attributes of its source ancestors) - this is what "xml:base fix-up" has to preserve;
  * xpointer is documented as unsupported by the library: any xpointer attribute => expected "reported".
Where the recommendation leaves the outcome open the model raises Undecided (the checker skips and counts):
  a target that is not well-formed while a fallback exists (resource error or fatal error), parse="text" with an empty
  href, a non-root document whose document element is replaced by a non-element.  A byte order mark at the start of a
  text resource may be kept or dropped: Result.bom_text tells the checker to compare modulo U+FEFF.
The reference parses the files with pyexpat (independent of the generator: hand-written graphs work the same way)."""
import pyexpat, codecs, posixpath

XI = 'http://www.w3.org/2001/XInclude'
XMLNS = 'http://www.w3.org/XML/1998/namespace'
NSDECL = 'http://www.w3.org/2000/xmlns/'
SEP = '\x01'
VROOT = '/v1/v2/v3/v4/v5/v6/R/'     # deep enough that an xml:base climbing above the graph's root is not clamped at '/'
CHUNK = 16 * 1024


# ---------------------------------------------------------------------------------------------------------------------
#  URIs (monitor-side RFC 3986 5.2 for hierarchical paths)
# ---------------------------------------------------------------------------------------------------------------------
def normpath(path):
    parts = path.split('/')
    segs = []
    for i, s in enumerate(parts):
        last = i == len(parts) - 1
        if s == '.':
            if last:
                segs.append('')
        elif s == '..':
            if len(segs) > 1:
                segs.pop()
            if last:
                segs.append('')
        else:
            segs.append(s)
    return '/'.join(segs)


def join(base, ref):
    ref = ref.split('#')[0]
    if ref == '':
        return base
    if ref.startswith('/'):
        return normpath(ref)
    return normpath(base[:base.rfind('/') + 1] + ref)


# ---------------------------------------------------------------------------------------------------------------------
#  source trees (pyexpat)
# ---------------------------------------------------------------------------------------------------------------------
class El:
    __slots__ = ('qname', 'ns', 'local', 'attrs', 'children', 'base', 'own_base')

    def __init__(self, qname, ns, local):
        self.qname, self.ns, self.local = qname, ns, local
        self.attrs = []        # (qname, ns, local, value); namespace declarations are not attributes here
        self.children = []     # El | ('t', s) | ('c', s) | ('p', target, data)
        self.base = None
        self.own_base = False

    def attr(self, name):
        for q, ns, local, v in self.attrs:
            if ns is None and local == name:
                return v
        return None


class Doc:
    __slots__ = ('top', 'uri', 'dtd_entities', 'dtd_defaults', 'has_doctype', 'xml_base')


class NotWellFormed(Exception):
    pass


def _split(name):
    f = name.split(SEP)
    if len(f) == 1:
        return None, f[0], f[0]
    if len(f) == 2:
        return f[0], f[1], f[1]
    return f[0], f[1], (f[2] + ':' + f[1]) if f[2] else f[1]


def parse_doc(data, uri):
    p = pyexpat.ParserCreate(namespace_separator=SEP)
    p.namespace_prefixes = True
    p.ordered_attributes = True
    p.buffer_text = False
    d = Doc()
    d.top, d.uri, d.dtd_entities, d.dtd_defaults, d.has_doctype, d.xml_base = [], uri, False, False, False, False
    stack = []
    state = {'dtd': False}

    def kids():
        return stack[-1].children if stack else d.top

    def start(name, attrs):
        ns, local, q = _split(name)
        e = El(q, ns, local)
        e.base = stack[-1].base if stack else uri
        for i in range(0, len(attrs), 2):
            ans, alocal, aq = _split(attrs[i])
            e.attrs.append((aq, ans, alocal, attrs[i + 1]))
            if ans == XMLNS and alocal == 'base':
                e.base = join(e.base, attrs[i + 1])
                e.own_base = True
                d.xml_base = True
        kids().append(e)
        stack.append(e)

    def text(s):
        k = kids()
        if not stack:
            return
        if k and isinstance(k[-1], tuple) and k[-1][0] == 't':
            k[-1] = ('t', k[-1][1] + s)
        else:
            k.append(('t', s))

    def comment(s):
        if not state['dtd']:
            kids().append(('c', s))

    def pi(t, data):
        if not state['dtd']:
            kids().append(('p', t, data))

    def sdt(*a):
        state['dtd'] = True
        d.has_doctype = True

    def edt():
        state['dtd'] = False

    def entdecl(name, is_pe, value, base, sysid, pubid, notation):
        if not is_pe:
            d.dtd_entities = True

    def attlist(el, at, ty, default, required):
        if default is not None:
            d.dtd_defaults = True

    p.StartElementHandler = start
    p.EndElementHandler = lambda n: stack.pop()
    p.CharacterDataHandler = text
    p.CommentHandler = comment
    p.ProcessingInstructionHandler = pi
    p.StartDoctypeDeclHandler = sdt
    p.EndDoctypeDeclHandler = edt
    p.EntityDeclHandler = entdecl
    p.AttlistDeclHandler = attlist
    try:
        p.Parse(data, True)
    except pyexpat.ExpatError as e:
        raise NotWellFormed(str(e))
    return d


# ---------------------------------------------------------------------------------------------------------------------
#  reference expansion
# ---------------------------------------------------------------------------------------------------------------------
class Fatal(Exception):
    def __init__(self, cls, where, extra=None):
        Exception.__init__(self, cls)
        self.cls, self.where, self.extra = cls, where, extra


class Undecided(Exception):
    pass


class _ResourceError(Exception):
    pass


def _xml_char_ok(c):
    o = ord(c)
    return o in (9, 10, 13) or 0x20 <= o <= 0xD7FF or 0xE000 <= o <= 0xFFFD or 0x10000 <= o <= 0x10FFFF


PY_CODEC = {'UTF-8': 'utf-8', 'UTF8': 'utf-8', 'ISO-8859-1': 'latin-1', 'LATIN1': 'latin-1', 'US-ASCII': 'ascii', 'UTF-16': 'utf-16',
            'UTF-16LE': 'utf-16-le', 'UTF-16BE': 'utf-16-be', 'WINDOWS-1252': 'cp1252'}


class Result:
    """kind: 'tree' (events, origins, bases) | 'fatal' (cls, where, extra) | 'undecided' (why)"""
    def __init__(self):
        self.kind = None
        self.events, self.origins, self.bases = [], [], []   # bases: one entry per SE event, in document order
        self.cls = self.where = self.extra = self.why = None
        self.features = set()
        self.bom_text = False
        self.n_includes = 0      # xi:include elements processed (size of the expansion)


def _attrs_event(e):
    return tuple(sorted((ns or '', local, q, v) for q, ns, local, v in e.attrs if not (ns == XMLNS and local == 'base')))


class Expander:
    def __init__(self, files, root):
        self.files, self.root = files, root
        self.res = Result()
        self.stack = []
        self.cache = {}
        self.targets_seen = {}

    def doc(self, uri):
        if uri not in self.cache:
            rel = uri[len(VROOT):] if uri.startswith(VROOT) else None
            data = self.files.get(rel) if rel is not None else None
            if data is None or rel.endswith('/'):
                self.cache[uri] = None
            else:
                try:
                    self.cache[uri] = parse_doc(data, uri)
                except NotWellFormed:
                    self.cache[uri] = 'nwf'
        return self.cache[uri]

    def run(self):
        r = self.res
        try:
            uri = VROOT + self.root
            d = self.doc(uri)
            if d is None or d == 'nwf':
                raise Undecided('root document unusable')
            if d.has_doctype:
                r.features.add('dtd:root-doc')
            if d.xml_base:
                r.features.add('explicit-xml-base:root-doc')
            if _vanishing_first_child(d.top):
                # (the parser of the library loses its current node there: known crash, named in the key of crash violations)
                r.features.add('include-replaced-by-nothing:first-child')
            self.stack.append(uri)
            self.emit(d.top, 'root', 'root-doc', 0, True)
            self.stack.pop()
            r.kind = 'tree'
        except Fatal as f:
            r.kind, r.cls, r.where, r.extra = 'fatal', f.cls, f.where, f.extra
        except Undecided as u:
            r.kind, r.why = 'undecided', str(u)
        return r

    # nodes -> events.  origin: where the nodes come from (for violation keys); where: root-doc | included-doc [+ :fallback]
    def emit(self, nodes, origin, where, depth, toplevel=False):
        r = self.res
        n_el = 0
        other = False
        for idx, n in enumerate(nodes):
            before = len(r.events)
            if isinstance(n, El):
                if n.ns == XI and n.local == 'include':
                    self.include(n, origin, where, depth, idx == 0 and not toplevel)
                elif n.ns == XI and n.local == 'fallback':
                    raise Fatal('orphan-fallback', where)
                else:
                    r.events.append(('SE', n.ns or '', n.local, n.qname, _attrs_event(n)))
                    flags = origin + (':top-level' if toplevel and depth else '') + (':own-xml-base' if n.own_base else ':inherited-xml-base' if n.base != self.stack[-1] else '')
                    r.origins.append(origin)
                    r.bases.append((n.base, flags))
                    self.emit(n.children, origin, where, depth)
                    r.events.append(('EE',))
                    r.origins.append(origin)
            elif n[0] == 't':
                self.text(n[1], origin)
            elif n[0] == 'c':
                r.events.append(('CM', n[1]))
                r.origins.append(origin)
            else:
                r.events.append(('PI', n[1], n[2]))
                r.origins.append(origin)
            if toplevel:
                d = 0
                for ev in r.events[before:]:
                    if ev[0] == 'SE':
                        if d == 0:
                            n_el += 1
                        d += 1
                    elif ev[0] == 'EE':
                        d -= 1
                    elif ev[0] == 'CH' and d == 0:
                        other = True
        if toplevel and (n_el != 1 or other):
            if depth == 0:
                raise Fatal('document-element-replaced-by-nothing' if n_el == 0 and not other else 'document-element-not-one-element', where)
            raise Undecided('document element of an included document replaced by a non-element')

    def text(self, s, origin):
        r = self.res
        if s == '':
            return
        if r.events and r.events[-1][0] == 'CH':
            r.events[-1] = ('CH', r.events[-1][1] + s)
        else:
            r.events.append(('CH', s))
            r.origins.append(origin)

    def include(self, n, origin, where, depth, first_child=False):
        r = self.res
        r.n_includes += 1
        fallbacks = [c for c in n.children if isinstance(c, El) and c.ns == XI and c.local == 'fallback']
        others = [c for c in n.children if isinstance(c, El) and c.ns == XI and c.local != 'fallback']
        if len(fallbacks) > 1:
            raise Fatal('multiple-fallback', where)
        if others:
            raise Fatal('include-child-of-include' if others[0].local == 'include' else 'xi-child-of-include', where)
        href, parse, xpointer, encoding = n.attr('href'), n.attr('parse'), n.attr('xpointer'), n.attr('encoding')
        if parse is None:
            parse = 'xml'
        if parse not in ('xml', 'text'):
            raise Fatal('bad-parse-value', where)
        if xpointer is not None:
            raise Fatal('xpointer-with-text' if parse == 'text' else 'xpointer-unsupported', where)
        if href is None:
            raise Fatal('no-href', where)
        if '#' in href:
            raise Fatal('href-fragment', where)
        if href == '':
            if parse == 'text':
                raise Undecided('parse=text with empty href')
            raise Fatal('empty-href', where)
        if n.own_base or n.base != self.stack[-1]:
            r.features.add('explicit-xml-base:in-scope-of-include')
        target = join(n.base, href)
        if '..' in href.split('/'):
            r.features.add('dotdot-href')
            # does the un-normalised path name a directory that does not exist?  (RFC 3986 removes dot segments lexically)
            cur = n.base[:n.base.rfind('/') + 1]
            segs = href.split('/')[:-1]
            for k, seg in enumerate(segs):
                cur = join(cur, seg + '/')
                if seg not in ('.', '..') and '..' in segs[k + 1:] and not any((VROOT + f).startswith(cur) for f in self.files):
                    r.features.add('href-dot-segments-through-missing-directory')
            if '/./../' in '/' + href:
                r.features.add('href-dot-segment-before-dotdot')
        fb = fallbacks[0] if fallbacks else None
        try:
            if parse == 'xml':
                if target in self.stack:
                    length = len(self.stack) - self.stack.index(target)
                    raise Fatal('loop', where, {'length': length, 'via_fallback': ':fallback' in where})
                d = self.doc(target)
                if d is None:
                    raise _ResourceError()
                if d == 'nwf':
                    if fb is not None:
                        raise Undecided('target not well-formed and a fallback exists')
                    raise Fatal('target-not-well-formed', where)
                r.features.add('xml-include')
                r.features.add('depth:%d' % (depth + 1))
                if target in self.targets_seen:
                    r.features.add('same-target-twice')
                self.targets_seen[target] = 1
                o = 'xml-include'
                if d.dtd_entities or d.dtd_defaults:
                    o += ':dtd'
                    r.features.add('dtd-entities-or-defaults:included-doc')
                elif d.has_doctype:
                    r.features.add('doctype:included-doc')
                if d.xml_base:
                    r.features.add('explicit-xml-base:included-doc')
                    if any(isinstance(t, El) and t.own_base for t in d.top):
                        r.features.add('explicit-xml-base:included-root')
                if fb is not None:
                    r.features.add('unused-fallback')
                    if _has_include(fb):
                        r.features.add('unused-fallback-with-include:' + where.split(':')[0])
                self.stack.append(target)
                self.emit(d.top, o, 'included-doc', depth + 1, True)
                self.stack.pop()
            else:
                rel = target[len(VROOT):] if target.startswith(VROOT) else None
                data = self.files.get(rel) if rel is not None else None
                if data is None or rel.endswith('/'):
                    raise _ResourceError()
                enc = (encoding or 'UTF-8').upper()
                if enc not in PY_CODEC:
                    raise _ResourceError()
                r.features.add('text-include')
                r.features.add('text-enc:' + enc)
                try:
                    s = codecs.decode(data, PY_CODEC[enc])
                except UnicodeError:
                    raise Fatal('text-not-decodable', where, {'encoding': enc})
                if s.startswith('\ufeff') or (enc == 'UTF-16' and data[:2] in (b'\xff\xfe', b'\xfe\xff')):
                    # a byte order mark: the recommendation does not say whether it belongs to the text; compared modulo U+FEFF
                    r.bom_text = True
                    s = s.lstrip('\ufeff')
                if not all(_xml_char_ok(c) for c in s):
                    raise Fatal('text-non-xml-char', where)
                o = 'text-include:' + enc
                if len(data) > CHUNK:
                    multibyte = enc.startswith('UTF-8') and any(data[k] >= 0x80 for k in range(CHUNK - 3, len(data)))
                    o += ':over-16k-multibyte' if multibyte else ':over-16k'
                    r.features.add('text-over-16k-multibyte' if multibyte else 'text-over-16k')
                if any(c in s for c in '<&>'):
                    r.features.add('text-markup-chars')
                if fb is not None:
                    r.features.add('unused-fallback')
                    if _has_include(fb):
                        r.features.add('unused-fallback-with-include:' + where.split(':')[0])
                self.text(s, o)
        except _ResourceError:
            if fb is None:
                raise Fatal('resource-error-no-fallback', where)
            r.features.add('fallback-used')
            if ':fallback' in where:
                r.features.add('nested-fallback-used')
            w = where if ':fallback' in where else where + ':fallback'
            self.emit(fb.children, 'fallback:' + where.split(':')[0], w, depth)


def _vanishing(e):
    """xi:include whose fallback yields nothing (statically: no children, or only includes of the same kind)"""
    fb = [c for c in e.children if isinstance(c, El) and c.ns == XI and c.local == 'fallback']
    return len(fb) == 1 and all(isinstance(c, El) and c.ns == XI and c.local == 'include' and _vanishing(c) for c in fb[0].children)


def _vanishing_first_child(nodes, top=True):
    """some xi:include of the tree (unused fallbacks included) is the first child of its parent and can be replaced by nothing"""
    for k, n in enumerate(nodes):
        if isinstance(n, El):
            if n.ns == XI and n.local == 'include' and k == 0 and not top and _vanishing(n):
                return True
            if _vanishing_first_child(n.children, False):
                return True
    return False


def _has_include(e):
    for c in e.children:
        if isinstance(c, El):
            if c.ns == XI or _has_include(c):
                return True
    return False


def expand(files, root):
    return Expander(files, root).run()


# ---------------------------------------------------------------------------------------------------------------------
#  generator
# ---------------------------------------------------------------------------------------------------------------------
def _esc_text(s):
    return s.replace('&', '&amp;').replace('<', '&lt;').replace('>', '&gt;').replace('\r', '&#13;')


def _esc_attr(s):
    return _esc_text(s).replace('"', '&quot;').replace('\n', '&#10;').replace('\t', '&#9;')


def ser(n):
    """generator node -> str.  ['e', qname, [(aq, v)], [children]] | ('t', s) | ('c', s) | ('p', t, d) | ('cd', s) | ('raw', s)"""
    k = n[0]
    if k == 'e':
        a = ''.join(' %s="%s"' % (q, _esc_attr(v)) for q, v in n[2])
        if not n[3]:
            return '<%s%s/>' % (n[1], a)
        return '<%s%s>%s</%s>' % (n[1], a, ''.join(ser(c) for c in n[3]), n[1])
    if k == 't':
        return _esc_text(n[1])
    if k == 'c':
        return '<!--%s-->' % n[1]
    if k == 'p':
        return '<?%s %s?>' % (n[1], n[2])
    if k == 'cd':
        return '<![CDATA[%s]]>' % n[1]
    return n[1]


TEXTS = ['x', 'some text', ' ', '\n  ', 'a < b & c > d', 'café', 'äöüß', 'tab\there', 'line1\nline2', '"quoted" \'single\'', ']]', '1 2 3',
         '€ uro', '中文', '\U0001F600']
LATIN_TEXTS = [t for t in TEXTS if all(ord(c) < 256 for c in t)]
NAMES = ['a', 'b', 'c', 'item', 'sec', 'p', 'data', 'n1', 'row', 'x-y', 'k_']
DIRNAMES = ['d', 'e', 'sub', 'inc', 'x1', 'data', 'lib']
TEXT_SNIPS = ['plain line\n', '<tag attr="v">not markup & not an entity &amp; </tag>\n', '<?xml version="1.0"?><r/>', ']]> <!-- c --> <![CDATA[x]]>\n', 'café üß\n',
              'crlf line\r\nnext\r\n', '\ttabs\t', '&lt;&#65;', 'x']
WIDE_SNIPS = ['€中文 ', '\U0001F600\U00010348 ']

PROFILES = [  # (name, weight)
    ('main', 46), ('deep', 8), ('text', 10), ('fallback', 10), ('cycle', 9), ('invalid', 9), ('docenc', 2),
    ('xmlbase-root', 1), ('xmlbase-inner', 1), ('xmlbase-included-root', 1), ('dtd-included', 1), ('doctype-plain', 1),
    ('unused-fb-include', 1), ('dotseg', 2), ('bigtext', 1), ('bigtext-multibyte', 1), ('badtext', 1), ('docelem', 1), ('nwf', 1),
]

INVALID_KINDS = ['bad-parse-value', 'xpointer-with-text', 'xpointer-unsupported', 'multiple-fallback', 'multiple-fallback-missing', 'orphan-fallback',
                 'orphan-fallback-in-fallback', 'include-child-of-include', 'xi-child-of-include', 'no-href', 'no-href-xpointer', 'empty-href', 'href-fragment',
                 'resource-error-no-fallback', 'resource-error-no-fallback-text']


class Graph:
    def __init__(self):
        self.files = {}
        self.root = None
        self.meta = {}
        self.expected = None


class _Gen:
    def __init__(self, rnd, profile):
        self.r = rnd
        self.profile = profile
        self.g = Graph()
        self.g.meta['profile'] = profile
        self.docs = []          # paths, index 0 = root
        self.style = []         # namespace style per doc
        self.pending = {}       # doc index -> list of extra include nodes to place (cycle / invalid injection)
        self.ntext = 0
        self.nmiss = 0
        self.chain = 0

    # ---- layout
    def layout(self):
        r = self.r
        dirs = ['']
        for _ in range(r.randint(1, 4)):
            parent = r.choice(dirs)
            name = r.choice(DIRNAMES)
            dpath = (parent + '/' if parent else '') + name
            if dpath not in dirs:
                dirs.append(dpath)
        self.dirs = dirs
        ndocs = r.randint(3, 7)
        if self.profile == 'deep':
            ndocs = r.randint(5, 8)
        used = set()
        for i in range(ndocs):
            d = r.choice(dirs) if i or r.random() < 0.6 else ''
            while True:
                nm = '%s%d.xml' % (r.choice(['doc', 'part', 'm', 'inc', 'a']), r.randint(0, 99))
                pth = (d + '/' if d else '') + nm
                if pth not in used:
                    break
            used.add(pth)
            self.docs.append(pth)
            self.style.append(r.choice(['none', 'none', 'default', 'prefixed']))
        self.g.root = self.docs[0]
        for d in dirs:
            if d:
                self.g.files[d + '/'] = b''      # directory entries: created on disk, never a resource
        self.chain = min(ndocs - 1, r.randint(3, 6) if self.profile in ('deep', 'cycle') else r.randint(1, 3))

    def rel(self, frm, to):
        """href from document frm to path to, with lexical variations that designate the same resource"""
        r = self.r
        fd = posixpath.dirname(frm)
        h = posixpath.relpath(to, fd or '.')
        x = r.random()
        if self.profile == 'dotseg' and x < 0.7:
            if self.g.meta.setdefault('dotseg', r.choice(['missing-dir', 'dot-dotdot'])) == 'missing-dir':
                # dot segments are removed lexically (RFC 3986 5.2.4): the directory named before '..' need not exist
                if not h.startswith('..'):
                    via = r.choice(['nonexistent', 'no/such'])
                    h = via + '/..' * (via.count('/') + 1) + '/' + h
            elif h.startswith('../'):
                h = './' + h                       # a '.' segment directly before '..'
            else:
                via = r.choice([d for d in self.dirs if d] or ['.'])
                h = posixpath.relpath(via, fd or '.') + '/./' + posixpath.relpath(to, via)
        elif x < 0.08 and not h.startswith('..'):
            h = './' + h
        elif x < 0.16:
            # detour through another directory of the graph (all of them exist on disk)
            via = r.choice(self.dirs)
            if via and via != fd:
                h = posixpath.relpath(via, fd or '.') + '/' + posixpath.relpath(to, via)
        elif x < 0.22 and fd:
            # climb one level more than necessary and come back
            h = '../' + posixpath.basename(fd) + '/' + h
        return h

    # ---- leaves
    def name(self, i):
        n = self.r.choice(NAMES)
        return ('p:' + n) if self.style[i] == 'prefixed' and self.r.random() < 0.7 else n

    def some_text(self, i):
        return ('t', self.r.choice(TEXTS))

    def leaf(self, i):
        r = self.r
        x = r.random()
        if x < 0.5:
            return self.some_text(i)
        if x < 0.65:
            return ('c', r.choice([' note ', 'x', ' <not-a-tag> & ']))
        if x < 0.75:
            return ('p', r.choice(['proc', 'target', 'php']), r.choice(['data', 'a="b"', 'x y z']))
        if x < 0.8:
            return ('cd', r.choice(['<cd> & ', 'c']))
        return self.element(i, 2)

    def element(self, i, depth):
        r = self.r
        attrs = []
        if r.random() < 0.4:
            attrs.append((r.choice(['id', 'k', 'href', 'parse']), r.choice(['v1', 'a&b', 'x.xml', 'é'])))
        if self.style[i] == 'prefixed' and r.random() < 0.3:
            attrs.append(('p:q', 'pv'))
        kids = []
        if depth < 3:
            for _ in range(r.choice([0, 1, 1, 2, 3])):
                kids.append(self.leaf(i) if depth == 2 else (self.element(i, depth + 1) if r.random() < 0.5 else self.leaf(i)))
        return ['e', self.name(i), attrs, kids]

    # ---- includes
    def xi(self, i, local):
        return self.xipfx[i] + ':' + local

    def text_file(self, i, kind=None):
        """create a text resource; returns (path, encoding attribute or None)"""
        r = self.r
        self.ntext += 1
        d = r.choice(self.dirs)
        pth = (d + '/' if d else '') + 't%d.%s' % (self.ntext, r.choice(['txt', 'txt', 'dat', 'xml', 'inc']))
        enc = r.choice([None, None, 'UTF-8', 'ISO-8859-1', 'ISO-8859-1', 'UTF-16LE', 'UTF-16BE', 'US-ASCII'])
        if self.profile == 'text' and r.random() < 0.12:
            enc = 'UTF-16'
        snips = list(TEXT_SNIPS)
        if enc in (None, 'UTF-8', 'UTF-16LE', 'UTF-16BE', 'UTF-16'):
            snips += WIDE_SNIPS
        s = ''.join(r.choice(snips) for _ in range(r.randint(0, 5)))
        if enc == 'US-ASCII':
            s = ''.join(c for c in s if ord(c) < 128)
        if enc == 'ISO-8859-1':
            s = ''.join(c for c in s if ord(c) < 256)
        if kind == 'big':
            enc = r.choice([None, 'ISO-8859-1', 'US-ASCII'])
            unit = 'line of plain text <b>&amp;</b>\n'
            s = unit * (r.randint(CHUNK, 3 * CHUNK) // len(unit) + 1)
        elif kind == 'big-multibyte':
            enc = r.choice([None, 'UTF-8'])
            s = ('x' * r.randint(0, 3) + '€é') * (r.randint(CHUNK, 2 * CHUNK) // 4)
        elif kind == 'bad-bytes':
            enc = r.choice([None, 'UTF-8'])
        elif kind == 'bad-char':
            s = s + r.choice(['\x01', '\x0b', '\x1f', '\x00', '\ufffe']) + 'tail'
            if enc in ('US-ASCII', 'ISO-8859-1'):
                s = ''.join(c for c in s if ord(c) < 128)
        codec = PY_CODEC[enc or 'UTF-8']
        data = s.encode(codec)
        if kind == 'bad-bytes':
            data = data[:len(data) // 2] + r.choice([b'\xff', b'\xc3', b'\xe2\x82', b'\x80', b'\xc0\xaf', b'\xed\xa0\x80']) + b'tail'
        self.g.files[pth] = data
        return pth, enc

    def missing(self, i):
        self.nmiss += 1
        d = self.r.choice(self.dirs + ['nodir'])
        return (d + '/' if d else '') + 'missing%d.xml' % self.nmiss

    def include(self, i, depth, allow_kinds, frm=None):
        """one xi:include node in document i.  kinds: xml text missing-fb unused-fb"""
        r = self.r
        frm = self.docs[i]
        kinds = [k for k in allow_kinds if k != 'xml' or i + 1 < len(self.docs)]
        kind = r.choice(kinds or ['text'])
        attrs = []
        kids = []
        if kind in ('xml', 'unused-fb'):
            if kind == 'unused-fb' and (i + 1 >= len(self.docs) or r.random() < 0.4):
                pth, enc = self.text_file(i)
                attrs = [('href', self.rel(frm, pth)), ('parse', 'text')] + ([('encoding', enc)] if enc else [])
            else:
                j = r.randint(i + 1, len(self.docs) - 1)
                attrs = [('href', self.rel(frm, self.docs[j]))]
                if r.random() < 0.3:
                    attrs.append(('parse', 'xml'))
            if kind == 'unused-fb':
                kids.append(['e', self.xi(i, 'fallback'), [], self.fallback_content(i, depth, with_includes=self.profile == 'unused-fb-include')])
        elif kind == 'text':
            pth, enc = self.text_file(i, self.textkind)
            attrs = [('href', self.rel(frm, pth)), ('parse', 'text')] + ([('encoding', enc)] if enc else [])
        elif kind == 'missing-fb':
            attrs = [('href', self.rel(frm, self.missing(i)))]
            if r.random() < 0.25:
                attrs.append(('parse', 'text'))
            kids.append(['e', self.xi(i, 'fallback'), [], self.fallback_content(i, depth, with_includes=True)])
        r.shuffle(attrs)
        if r.random() < 0.1:
            attrs.append((r.choice(['accept', 'accept-language', 'id', 'note']), 'text/plain'))
        if r.random() < 0.12:
            kids.insert(r.randint(0, len(kids)), r.choice([('t', '\n  '), ('c', 'ignored'), ['e', 'ignored-child', [], []], ('t', 'ignored text')]))
        return ['e', self.xi(i, 'include'), attrs, kids]

    def fallback_content(self, i, depth, with_includes):
        r = self.r
        out = []
        for _ in range(r.choice([0, 1, 1, 2, 3])):
            out.append(self.leaf(i))
        if with_includes and depth < 3 and r.random() < 0.6:
            inc = self.include(i, depth + 1, ['xml', 'text', 'missing-fb'] if self.profile != 'unused-fb-include' else ['missing-fb', 'xml'])
            if self.profile == 'unused-fb-include':
                # an include that cannot be satisfied: must stay invisible because the outer resource exists
                inc = ['e', self.xi(i, 'include'), [('href', self.rel(self.docs[i], self.missing(i)))], []] if r.random() < 0.6 else inc
            if r.random() < 0.3:
                inc = ['e', self.name(i), [], [inc]]
            out.insert(r.randint(0, len(out)), inc)
        return out

    # ---- documents
    def build_doc(self, i):
        r = self.r
        prof = self.profile
        kinds = {'main': ['xml', 'xml', 'xml', 'text', 'missing-fb', 'unused-fb'], 'deep': ['xml', 'xml', 'text'], 'text': ['text', 'text', 'xml'],
                 'fallback': ['missing-fb', 'missing-fb', 'unused-fb', 'xml'], 'bigtext': ['text'], 'bigtext-multibyte': ['text'], 'badtext': ['xml'],
                 'unused-fb-include': ['unused-fb', 'unused-fb', 'xml']}.get(prof, ['xml', 'xml', 'text', 'missing-fb'])
        self.textkind = {'bigtext': 'big', 'bigtext-multibyte': 'big-multibyte'}.get(prof)
        root = self.element(i, 1)
        incs = []
        if i < self.chain:
            # the guaranteed chain  doc i -> doc i+1
            a = [('href', self.rel(self.docs[i], self.docs[i + 1]))]
            incs.append(['e', self.xi(i, 'include'), a, []])
        nextra = r.choice([0, 1, 1, 2, 3]) if i + 1 < len(self.docs) or prof in ('text', 'fallback') else r.choice([0, 0, 1])
        if prof in ('bigtext', 'bigtext-multibyte'):
            nextra = 1 if i == min(1, len(self.docs) - 1) else 0
        for _ in range(nextra):
            incs.append(self.include(i, 0, kinds))
        incs += self.pending.get(i, [])
        elements = []

        def collect(e):
            elements.append(e)
            for c in e[3]:
                if isinstance(c, list) and not c[1].startswith(self.xipfx[i] + ':'):
                    collect(c)
        collect(root)
        root_include = None
        if self.rootinc[i] and i not in self.pending and incs and not incs[0][3] and dict(incs[0][2]).get('parse', 'xml') == 'xml' and i < self.chain:
            root_include = incs.pop(0)
        for inc in incs:
            e = r.choice(elements)
            e[3].insert(r.randint(0, len(e[3])), inc)
        nsd = []
        if self.style[i] == 'default':
            nsd.append(('xmlns', 'urn:x:def%d' % (i % 3)))
        if self.style[i] == 'prefixed':
            nsd.append(('xmlns:p', 'urn:x:p%d' % (i % 3)))
        xidecl = ('xmlns:' + self.xipfx[i], XI)
        top = []
        if r.random() < 0.3:
            top.append(('c', ' head of %s ' % posixpath.basename(self.docs[i])))
        if r.random() < 0.15:
            top.append(('p', 'style', 'href="s.css"'))
        if root_include is not None:
            root_include[2] = root_include[2] + [xidecl]
            top.append(root_include)
        else:
            root[2] = root[2] + nsd + [xidecl]
            if prof in ('xmlbase-root', 'xmlbase-inner', 'xmlbase-included-root'):
                self.add_xml_base(i, root, elements)
            top.append(root)
        if r.random() < 0.2:
            top.append(('c', 'tail'))
        if r.random() < 0.1:
            top.append(('p', 'end', 'of doc'))
        if prof == 'dtd-included' and i > 0 and i <= self.chain and root_include is None and r.random() < 0.7:
            root[3].insert(r.randint(0, len(root[3])), ('raw', '&ent;'))
        body = ''.join(ser(n) + ('\n' if r.random() < 0.3 else '') for n in top)
        enc = self.docenc[i]
        head = ''
        if enc or r.random() < 0.3:
            head = '<?xml version="1.0"%s?>\n' % (' encoding="%s"' % enc if enc else '')
        dt = ''
        if prof == 'dtd-included' and i > 0 and i <= self.chain and root_include is None:
            rn = root[1]
            dt = '<!DOCTYPE %s [<!ENTITY ent "entity text"><!ATTLIST %s defaulted CDATA "dflt">]>\n' % (rn, rn)
        elif (prof == 'doctype-plain' or (i == 0 and r.random() < 0.05)) and root_include is None:
            dt = '<!DOCTYPE %s [<!-- internal subset --><!ELEMENT not-used-anywhere ANY>]>\n' % root[1]
        data = (head + dt + body).encode(PY_CODEC.get(enc or 'UTF-8'), 'xmlcharrefreplace')
        self.g.files[self.docs[i]] = data

    def add_xml_base(self, i, root, elements):
        """explicit xml:base attributes; hrefs below them were written relative to the document, so rewrite the document's
        include hrefs is not possible in general: instead only bases that keep the directory are used on ancestors of
        includes ('./', the document's own name, 'other.xml') and arbitrary ones on elements without includes below"""
        r = self.r
        prof = self.profile
        same_dir = ['./', posixpath.basename(self.docs[i]), 'other-name.xml', '../' + posixpath.basename(posixpath.dirname(self.docs[i])) + '/x.xml' if posixpath.dirname(self.docs[i]) else 'y.xml']
        if prof == 'xmlbase-root' and i == 0:
            root[2].append(('xml:base', r.choice(same_dir)))
        if prof == 'xmlbase-included-root' and i > 0:
            root[2].append(('xml:base', r.choice(same_dir)))
        if prof == 'xmlbase-inner':
            for e in elements[1:]:
                if r.random() < 0.5:
                    has_inc = self.xipfx[i] + ':include' in ser(e)
                    e[2].append(('xml:base', r.choice(same_dir) if has_inc else r.choice(same_dir + ['zz/', 'deep/er/f.xml', 'q.xml'] + (['../up.xml'] if posixpath.dirname(self.docs[i]) else []))))

    # ---- special injections
    def plan_cycle(self):
        r = self.r
        L = r.randint(1, 4)
        L = min(L, self.chain + 1)
        s = r.randint(0, self.chain + 1 - L)
        last = s + L - 1
        frm = self.docs[last]
        inc = ['e', self.xi(last, 'include'), [('href', self.rel(frm, self.docs[s]))], []]
        via_fb = r.random() < 0.3
        if via_fb:
            inc = ['e', self.xi(last, 'include'), [('href', self.rel(frm, self.missing(last)))], [['e', self.xi(last, 'fallback'), [], [('t', 'fb'), inc]]]]
        elif r.random() < 0.25:
            inc[3].append(['e', self.xi(last, 'fallback'), [], [('t', 'loop fallback')]])
        self.pending.setdefault(last, []).append(inc)
        self.g.meta.update(cycle_len=L, cycle_start=s, via_fallback=via_fb)

    def plan_invalid(self, kind=None):
        r = self.r
        kind = kind or r.choice(INVALID_KINDS)
        i = r.randint(0, self.chain)
        frm = self.docs[i]
        X = lambda l: self.xi(i, l)
        good = self.rel(frm, self.docs[i + 1]) if i + 1 < len(self.docs) else None
        tpath, _ = self.text_file(i)
        thref = self.rel(frm, tpath)
        href = good or thref
        base = [('href', href)] + ([('parse', 'text')] if good is None else [])
        fb = lambda c=None: ['e', X('fallback'), [], c if c is not None else [('t', 'fb')]]
        if kind == 'bad-parse-value':
            n = ['e', X('include'), [('href', href), ('parse', r.choice(['html', 'XML', 'Text', '', 'xml ', 'binary']))], []]
        elif kind == 'xpointer-with-text':
            n = ['e', X('include'), [('href', thref), ('parse', 'text'), ('xpointer', r.choice(['x', 'element(/1)', 'xpointer(/)']))], []]
        elif kind == 'xpointer-unsupported':
            n = ['e', X('include'), [('href', href), ('xpointer', r.choice(['id1', 'element(/1)', 'xpointer(//a)']))], []] if good else None
        elif kind == 'multiple-fallback':
            n = ['e', X('include'), base, [fb(), ('t', ' '), fb([])] if r.random() < 0.5 else [fb([]), fb([]), fb()]]
        elif kind == 'multiple-fallback-missing':
            n = ['e', X('include'), [('href', self.rel(frm, self.missing(i)))], [fb(), fb()]]
        elif kind == 'orphan-fallback':
            n = fb([('t', 'orphan'), ['e', 'z', [], []]])
        elif kind == 'orphan-fallback-in-fallback':
            n = ['e', X('include'), [('href', self.rel(frm, self.missing(i)))], [fb([fb()])]]
        elif kind == 'include-child-of-include':
            n = ['e', X('include'), base, [['e', X('include'), base, []]]]
        elif kind == 'xi-child-of-include':
            n = ['e', X('include'), base, [['e', X(r.choice(['foo', 'Include', 'fallbacks'])), [], []]]]
        elif kind == 'no-href':
            n = ['e', X('include'), r.choice([[], [('parse', 'xml')], [('parse', 'text')], [('hreff', 'x.xml')]]), []]
        elif kind == 'no-href-xpointer':
            n = ['e', X('include'), [('xpointer', 'element(/1/1)')], []]
        elif kind == 'empty-href':
            n = ['e', X('include'), [('href', '')] + r.choice([[], [('parse', 'xml')]]), []]
        elif kind == 'href-fragment':
            n = ['e', X('include'), [('href', href + '#' + r.choice(['frag', 'element(/1)', '']))] + base[1:], []]
        elif kind == 'resource-error-no-fallback':
            n = ['e', X('include'), [('href', self.rel(frm, self.missing(i)))], []]
        else:
            n = ['e', X('include'), [('href', self.rel(frm, self.missing(i))), ('parse', 'text')], r.choice([[], [('c', 'no fallback here')]])]
        if n is None:
            return self.plan_invalid('bad-parse-value')
        in_fb = kind != 'orphan-fallback' and r.random() < 0.25
        if in_fb:
            n = ['e', X('include'), [('href', self.rel(frm, self.missing(i)))], [fb([('t', 'before'), n])]]
        self.pending.setdefault(i, []).append(n)
        self.g.meta.update(invalid=kind, invalid_doc=i, invalid_in_fallback=in_fb)

    def plan_docelem(self):
        """the document element of the parsed document is an xi:include that does not yield exactly one element"""
        r = self.r
        i = 0
        X = lambda l: self.xi(i, l)
        frm = self.docs[0]
        kind = r.choice(['text', 'fb-text', 'fb-empty', 'fb-two'])
        if kind == 'text':
            tpath, enc = self.text_file(0)
            n = ['e', X('include'), [('href', self.rel(frm, tpath)), ('parse', 'text')] + ([('encoding', enc)] if enc else []), []]
        else:
            c = {'fb-text': [('t', 'only text')], 'fb-empty': [], 'fb-two': [['e', 'one', [], []], ['e', 'two', [], []]]}[kind]
            n = ['e', X('include'), [('href', self.rel(frm, self.missing(0)))], [['e', X('fallback'), [], c]]]
        n[2].append(('xmlns:' + self.xipfx[0], XI))
        self.g.files[self.docs[0]] = ser(n).encode()
        self.g.meta['docelem'] = kind

    def make(self):
        r = self.r
        prof = self.profile
        self.layout()
        n = len(self.docs)
        self.xipfx = [r.choice(['xi', 'xi', 'xi', 'inc', 'xinclude']) for _ in range(n)]
        self.rootinc = [r.random() < (0.15 if k else 0.1) for k in range(n)]
        self.docenc = [None] * n
        if prof == 'docenc':
            self.docenc = [r.choice([None, 'ISO-8859-1', 'UTF-16', 'US-ASCII']) for _ in range(n)]
        if prof in ('dtd-included', 'doctype-plain', 'xmlbase-root', 'xmlbase-inner', 'xmlbase-included-root'):
            self.rootinc = [False] * n
        if prof == 'cycle':
            self.plan_cycle()
        if prof == 'invalid':
            self.plan_invalid()
        if prof == 'badtext':
            i = r.randint(0, self.chain)
            pth, enc = self.text_file(i, r.choice(['bad-bytes', 'bad-char']))
            self.g.meta['badtext'] = pth
            self.pending.setdefault(i, []).append(['e', self.xi(i, 'include'), [('href', self.rel(self.docs[i], pth)), ('parse', 'text')] + ([('encoding', enc)] if enc else []), []])
        if prof == 'nwf':
            i = r.randint(0, self.chain)
            pth = self.missing(i).replace('missing', 'broken')
            self.g.files[pth] = r.choice([b'<a><b></a>', b'<a>', b'', b'<a/><b/>', b'text only', b'<a attr=v/>', b'<a>&undefined;</a>'])
            self.pending.setdefault(i, []).append(['e', self.xi(i, 'include'), [('href', self.rel(self.docs[i], pth))], []])
        for i in range(n):
            self.build_doc(i)
        if prof == 'docelem':
            self.plan_docelem()
        return self.g


MAX_INCLUDES = 60     # bound on the size of an expansion (every inclusion costs the library a parser; fan-out multiplies along a chain)


def gen_graph(rnd, profile=None):
    """a graph whose reference expansion processes at most MAX_INCLUDES xi:include elements (g.expected = the expansion)"""
    if profile is None:
        tot = sum(w for _, w in PROFILES)
        x = rnd.random() * tot
        for name, w in PROFILES:
            x -= w
            if x < 0:
                profile = name
                break
    for attempt in range(20):
        g = _Gen(rnd, profile).make()
        g.expected = expand(g.files, g.root)
        if g.expected.n_includes <= MAX_INCLUDES:
            break
    return g
