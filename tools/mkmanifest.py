#!/usr/bin/env python3
"""Regenerate /verif/MANIFEST.json from the table below (one entry per property that has a check)."""
import json, os, subprocess, sys

V = os.path.dirname(os.path.dirname(os.path.abspath(__file__)))
props = [json.loads(l) for l in open(os.path.join(V, 'properties.jsonl'))]

CHECKS = {
    'C01': dict(
        category='exploration', design_ref='DESIGN.md §4 C01',
        technique='runtime monitoring: coverage-guided fuzzing (libFuzzer) and generated pathological inputs under ASan+UBSan with an exception-type monitor and a re-run-once watchdog',
        text='A libFuzzer harness drives SAXParser, SAX2XMLReader, XercesDOMParser and DOMLSParser x four scanners x validation schemes x feature bits (schema, full checking, '
             'external DTD, entity-reference nodes, small entity-expansion limit, chunked delivery, XInclude, identity constraints) with documents, DTDs, schemas and external entities '
             'served from the fuzz input; seeds are the repository\'s sample/XSTS/XInclude files plus generated documents and mutants. 30 pathological shapes (10^4-10^5 nesting, '
             '2x10^4 attributes, 70K names, 10^3-leaf content models, 2000-link entity chains, entity bomb under a limit, garbage in UTF-16/UCS-4/EBCDIC) run through the batch driver. '
             'Any sanitizer report, undocumented exception type, or reproducible non-termination is a violation.',
        note='Trusted: clang ASan/UBSan (object-size and nonnull-attribute sub-checks excluded, see DESIGN §3). Red-zone limits apply; only paths the corpus and mutations reach are covered. '
             'continue-after-fatal-error is documented as undetermined behaviour and is excluded from the oracle; parameter-entity expansion is not bounded (see C19 finding).'),
    'C17': dict(
        category='exploration', design_ref='DESIGN.md §4 C17',
        technique='runtime monitoring: ThreadSanitizer on a multi-threaded stress workload with seeded yield injection at mutex and lazy-initialisation hooks, digest comparison with a single-threaded run, deadlock watchdog',
        text='Many short processes (4-16 threads) are released by a barrier onto the same not-yet-used facility and then draw seeded work items: private parsers (DTD validation), SAX2 and DOM '
             'parsers on one shared LOCKED grammar pool (new namespace URIs, not-yet-built content models, pattern facets), private DOM build/serialise, owner-less DocumentType nodes, '
             'DOMImplementationRegistry lookups, regular expressions with category/block escapes, local-code-page and named transcoders, exception message loading. Hooks at XMLMutexLock and at '
             'the lazy-initialisation sites inject yields between critical sections and inside first-use windows and count overlapped windows; every TSan report (de-duplicated by root cause), '
             'crash, twice-confirmed hang or digest difference against the single-threaded run is a violation.',
        note='Trusted: ThreadSanitizer (happens-before over the executions produced; ICU/libstdc++ uninstrumented). Reports rooted in the two KNOWN lazy-content-model findings are suppressed in the '
             'bulk processes (TSan suppressions by function) and re-observed in a few unsuppressed ones.'),
    'C18': dict(
        category='fault_enumeration', design_ref='DESIGN.md §4 C18',
        technique='runtime monitoring: ledger MemoryManager (exact alloc/free bookkeeping, per parser and global) + LeakSanitizer, over an enumeration of every way a parse can end',
        text='For each (document, API, validation) combination the parse is run once to count callbacks and progressive steps; then an application exception (SAXException, std::runtime_error, int) '
             'is thrown from the k-th callback for every k (capped at 120/400, sampled beyond) and progressive parses are abandoned after every step with and without parseReset, with the parser '
             're-used afterwards in a quarter of the cases; DOM documents are adopted and outlive the parser. After destroying the objects the parser\'s ledger must be empty and must never have '
             'been handed a foreign block; the global ledger must be empty after Terminate; LeakSanitizer runs at exit; Initialize/Terminate cycles (nested 0-3 deep) each get their own ledger.',
        note='Trusted: the ledger (hash set of live blocks under a mutex) and LeakSanitizer. Only allocations routed through MemoryManager are attributed to a manager.'),
    'C19': dict(
        category='exploration', design_ref='DESIGN.md §4 C19',
        technique='runtime monitoring: system-call log (strace openat/connect on the uninstrumented build) + recording entity resolver + EntityPush hook counter as oracles over a configuration lattice',
        text='A document graph on disk (external DTD subset with relative external general and parameter entities, an external entity of the internal subset, a schema with include and import, a DOCTYPE '
             'served by a loopback HTTP listener) is parsed under the lattice {4 scanners x disableDefaultEntityResolution x validation scheme x loadExternalDTD x doSchema x loadSchema x resolver '
             'absent / returning null / supplying the source} with 4 APIs while strace records every open and connect: forbidden resources must not be touched, opened paths must be designated by the '
             'graph (RFC 2396 resolution against the containing entity), must have been offered to the resolver first, and must not be opened when the resolver supplied a source; required resources '
             'must be fetched. Documents with exactly N entity expansions around each limit L (0..1000; content, attribute, nested, mixed) and reference cycles of length 1-6 check the expansion bound.',
        note='Trusted: strace and the marker-based attribution of system calls to cases; the hook counter. HTTP redirects/proxies not modelled. Parameter-entity expansion is a known finding.'),
    'C07': dict(
        category='exploration', design_ref='DESIGN.md §4 C07',
        technique='runtime monitoring: reference content-model matcher (Brzozowski derivatives) with exhaustive small-sequence enumeration + single-constraint validity cases + validation on/off differential; ASan+UBSan',
        text='For random deterministic content models (depth <= 4, all occurrence operators) EVERY child sequence up to length 3 (quick) / 4 (thorough) over the model alphabet plus a foreign '
             'element, plus longer random sequences, is validated by the IG and DG scanners through 4 APIs and compared with the derivative matcher; 70 single-constraint cases cover required/fixed/'
             'enumerated/NMTOKEN(S)/ID/IDREF(S)/ENTITY/ENTITIES/NOTATION attributes, root type, EMPTY/mixed/ANY/children content with whitespace, comments, CDATA and entity content, duplicate '
             'declarations and the standalone-declaration constraints; a validity violation must yield >= 1 validity error and no fatal error; valid documents give the same events with validation on and off.',
        note='Trusted: the derivative matcher (cross-checked against python re at development time), the hand-written expectations of the constraint cases (XML 1.0 5th edition text). '
             'Non-deterministic content models are outside the oracle.'),
    'C15': dict(
        category='exploration', design_ref='DESIGN.md §4 C15',
        technique='runtime monitoring: differential oracle over operation histories (n-th operation on a used parser vs the same operation on a fresh parser), under ASan+UBSan',
        text='Sequences of 6-30 operations on one parser object of each API (SAX, SAX2, DOM, DOMLS, progressive SAX2/DOM): parses of valid, invalid and malformed documents that share '
             'element/ID/entity names and schemas, handler exceptions thrown at the k-th callback, progressive parses abandoned after k steps with and without parseReset, feature and scanner '
             'switches, adoptDocument. Each step must equal (events, error codes, positions, status) the same step on a fresh parser; adopted documents are re-dumped at the end.',
        note='Trusted: the fresh-parser run of the same build as reference. Grammar caching is off here (cached-grammar transparency belongs to the C16 workload).'),
    'C02': dict(
        category='exploration', design_ref='DESIGN.md §4 C02',
        technique='runtime monitoring: labelled workload (generated well-formed documents, single-constraint mutants) with verdict oracle, pyexpat as discarding second opinion, under ASan+UBSan',
        text='Well-formed side: documents rendered from random infosets must be parsed without fatal error by 12 API/scanner combinations with namespaces on and off. '
             'Ill-formed side: ~75 mutation operators, each violating one named well-formedness, namespace or encoding constraint, are applied to generated documents; every '
             'mutant must produce a fatal error or a documented exception. Held on the executions observed (counts per operator and configuration in the evidence).',
        note='Trusted: each operator really violates a constraint (confirmed per case by pyexpat for XML 1.0 documents; XML 1.1 and namespace operators by construction), '
             'generator names lie in the intersection of the 4th/5th edition name classes. Sanitizer reports in this workload count as violations.'),
    'C06': dict(
        category='exploration', design_ref='DESIGN.md §4 C06',
        technique='runtime monitoring: scope-stack reference model over generated namespace-well-formed documents; event and DOM-lookup oracles; namespace mutants; ASan+UBSan',
        text='For generated documents with nested, shadowed, re-declared and un-declared prefixes (incl. >16 declarations per element and entity content inheriting '
             'the default namespace) the (URI, local name, qname) of every element and attribute, the balance and scoping of SAX2 prefix-mapping events, the namespace of '
             'DOM declaration attributes and the answers of lookupNamespaceURI / lookupPrefix / isDefaultNamespace on elements, attributes and child nodes are compared '
             'with the generator\'s scope stack under 8 API/scanner configurations; 11 namespace-constraint mutants must be fatal. Held on what was observed.',
        note='Trusted: the generator scope model. lookupPrefix may return any validly bound prefix; isDefaultNamespace(null) and lookups of xml/xmlns are not judged (DOM L3 leaves them open).'),
    'C04': dict(
        category='exploration', design_ref='DESIGN.md §4 C04',
        technique='runtime monitoring: metamorphic/differential oracle (one-shot parse vs hostile chunk schedules, file, stdin pipe; buffer-boundary sliding) with refill hooks as coverage proof; ASan+UBSan',
        text='The same bytes (well-formed documents and mutants) are parsed from memory in one piece and through streams returning 1, 2, 3, 7 or random byte counts, from a '
             'file and from a pipe on stdin; events, error codes and error positions must be identical. A document containing every boundary-sensitive construct is padded so that '
             'the 16384-character and 49152-byte buffer boundaries fall on each of its offsets (UTF-8 and UTF-16); hook counters prove the refills. Held on what was observed.',
        note='Trusted: the one-shot parse of the same build is the reference (no model). Schedules whose first read is shorter than the first markup are attributed to known finding F05.'),
    'C03': dict(
        category='exploration', design_ref='DESIGN.md §4 C03',
        technique='runtime monitoring: reference-model oracle (infoset generator) + differential between APIs/scanners, under ASan+UBSan',
        text='Documents are rendered from random infosets with every lexical freedom the generator knows (quotes, character/entity references, CDATA, '
             'all line-end forms, XML 1.0/1.1, DTD defaults, nested entities, parameter-entity-delivered declarations, four encodings); the canonical '
             'event dump of 12 API/scanner configurations of the real library (ASan+UBSan build of the current tree) is compared with the dump computed '
             'from the infoset, pairwise between APIs, and line numbers at element starts are checked. Held on the executions observed; not a proof.',
        note='Trusted: the generator\'s infoset-to-expected-events mapping (cross-checked per document by pyexpat for XML 1.0; disagreeing documents are '
             'discarded and counted), the driver\'s dump code, clang sanitizers. Names are restricted to characters legal in both the 4th and 5th edition.'),
    'C05': dict(
        category='exploration', design_ref='DESIGN.md §4 C05',
        technique='runtime monitoring: reference-codec oracle over exhaustive enumeration of small code-unit spaces and generated strings/documents, with poisoned source tails and exact-size output buffers under ASan+UBSan',
        text='Every 1-, 2- and 3-byte UTF-8 sequence (padded and bare, every block split x per-call limit, also behind 40 decoded characters), sampled (quick) or all (thorough) 4-byte sequences, '
             'every Unicode scalar value through UTF-8/UTF-16LE/BE/UCS-4LE/BE/XMLCh encode, decode and canTranscodeTo, every byte and BMP code point through 6 intrinsic and 14 ICU single-byte pages, '
             'ICU multi-byte round trips, 48 aliases, XMLRecognizer prefixes, and whole documents in 11 encodings x BOM x declaration (also contradictory and ill-formed ones) are run through the real '
             'transcoders and parser; results (units, bytes eaten, charSizes, exception class, event dump) are compared with reference codecs written for the check.',
        note='Trusted: the reference codecs (two independent ones compared pairwise; golden tables verified against python codecs at start-up), clang ASan/UBSan. Little-endian host assumed. '
             'ICU-backed encodings are judged only by python-codecs agreement for 14 pages and by self round trips.'),
    'C08': dict(
        category='exploration', design_ref='DESIGN.md §4 C08',
        technique='runtime monitoring: reference-validator oracle (derivative-based content models, wildcards, substitution, xsi:type/nil, attribute uses) over exhaustive small child sequences and single-rule mutations; both schema-capable scanners, SAX2/DOM/PSVI; ASan+UBSan',
        text='For random schemas of a modelled subset (UPA-clean by construction and by an explicit check) ALL child sequences up to a bound over the type alphabet, near-miss words, all small attribute subsets, '
             'random valid trees and 21 kinds of single-rule mutations are validated by the IG and SG scanners through SAX2, DOM and PSVIHandler and compared with the reference validator; on instances both accept, '
             'defaulted attributes, element defaults and governing types are compared too. Disagreements are re-run stand-alone and shrunk before they count. 47 broken/repaired schema twins and the shipped XSTS regression set run too.',
        note='Trusted: the reference validator (two matchers cross-checked at run time). Not decided: lax assessment below undeclared elements, redefine, notations, UPA/particle restriction without full checking.'),
    'C10': dict(
        category='exploration', design_ref='DESIGN.md §4 C10',
        technique='runtime monitoring: reference identity-constraint evaluator (XPath subset, node tables per XSD 3.11.5, value-space comparison) + metamorphic relations (sibling permutation, fresh duplicate); ASan+UBSan',
        text='A schema family with key/unique/keyref on one or two scope levels, 10 selectors and 11 field sets over 8 datatypes is instantiated with 0-200 tuples steered by 17 scenarios (duplicates in other lexical forms, '
             'near misses, absent/multiple fields, dangling and forward references, duplicates across scopes, nested scopes); verdicts of {SAX2,DOM} x {IG,SG} are compared with the reference; permuting siblings or '
             'duplicating a group with fresh keys must not change the parser\'s own verdict.',
        note='Trusted: the reference evaluator. One fixed element structure; union/list types and nilled fields are not judged.'),
    'C11': dict(
        category='exploration', design_ref='DESIGN.md §4 C11',
        technique='runtime monitoring: two reference matchers (Brzozowski derivatives and Thompson NFA) as oracle over generated expressions x small-string enumeration, option-variant and second-pass differentials, malformed-expression operators; ASan+UBSan',
        text='About 3000 (quick) / 21000 (thorough) expressions rendered from random ASTs in the schema and XPath dialects are compiled in every option variant and run on all strings of length <= 4 over their own '
             'characters, range ends +-1, members and non-members of every escape, sampled members and neighbours, windows; matches / matches+Match / allMatches / tokenize / replace results are compared with the '
             'references and between variants and passes; 22 malformed-expression operators must give ParseException. Sanitizer reports, foreign exceptions and twice-confirmed hangs are violations.',
        note='Trusted: the reference matchers (cross-checked on the first 40 strings of every expression). Back-references, capture groups > 0 and case-insensitive category escapes are not judged.'),
    'C20': dict(
        category='exploration', design_ref='DESIGN.md §4 C20',
        technique='runtime monitoring: reference XInclude processor (tree + per-element base URI, or fatal class) as oracle over generated file graphs incl. inclusion cycles, through two DOM APIs under ASan+UBSan with a progress watchdog',
        text='Generated file graphs (nested directories, include chains 3-7 deep, repeated targets, text resources in six encodings, nested/unused fallbacks, cycles of length 1-4 plain and through fallbacks, '
             '15 kinds of invalid usage, explicit xml:base, DTDs in included documents, dot-segment hrefs) are written to disk and parsed with XInclude on through XercesDOMParser and DOMLSParser; the resulting DOM '
             'and every element\'s getBaseURI() are compared with a reference XInclude 1.0 expansion; expected-fatal graphs (loops, misuse) must be reported and must terminate. In-repo XInclude documents run as sanitizer-only cases.',
        note='Trusted: the reference expansion (pyexpat trees). file: URLs only; xpointer follows the documented deviation (always reported); cases XInclude leaves implementation-defined are skipped and counted.'),
    'C09': dict(
        category='exploration', design_ref='DESIGN.md §4 C09',
        technique='runtime monitoring: reference datatype model (lexical/value space, order, facets, canonical forms) + reference-free axioms + differential between the three validation routes (validator factory, XSValue, schema-validated instance with PSVI); ASan+UBSan',
        text='About 139000 (quick) evaluations over 73000 distinct (type, literal) pairs: grammar-based literals, boundary catalogues and single-edit near misses for all built-in types, 1400 derived types with '
             'boundary facet values, lists and unions, 24000 order triples, 20000 instance documents. Each verdict, order result and canonical form is compared with the reference model, with order/canonical-form axioms, '
             'and between the DatatypeValidator, XSValue and parse+PSVI routes. Points XSD 1.0 leaves ambiguous are skipped and counted.',
        note='Trusted: the reference model (python, exact arithmetic). NOTATION, anySimpleType, QName enumerations and patterns outside the regex subset shared with python re are not judged.'),
    'C12': dict(
        category='exploration', design_ref='DESIGN.md §4 C12',
        technique='runtime monitoring: round-trip oracle (edit DOM, serialise with error handler, re-parse with a fresh parser, structural dump comparison + isEqualNode both ways + second serialisation) with an expected-error classifier and a per-character XMLFormatter model; pyexpat second opinion; ASan+UBSan',
        text='About 15500 distinct trees (generated documents edited through the DOM API incl. namespace-changing edits, optionally normalizeDocument) x output encodings (UTF-8/16, ISO-8859-1, US-ASCII, EBCDIC, ICU pages) x '
             'serializer features x targets are serialised; content that has no well-formed spelling must be reported, everything else must re-parse to an equal tree and serialise to the same bytes again; '
             'unrepresentable characters must appear as character references; XMLFormatter is swept over every EscapeFlags x UnRepFlags pair.',
        note='Trusted: the tree dump, the classification of inexpressible content, pyexpat for XML 1.0 output. DocumentFragment roots, serializer filters and pretty-print are not exercised.'),
    'C13': dict(
        category='exploration', design_ref='DESIGN.md §4 C13',
        technique='runtime monitoring: reference DOM as oracle over generated and exhaustively enumerated operation scripts, with structural invariants and an identity-carrying dump compared after every operation; ASan+UBSan',
        text='2000 random scripts x 200 operations plus all 42900 scripts of depth 2 over the operation alphabet (insert/replace/remove with fragments, attributes with and without namespaces, character data, '
             'import/adopt/clone/rename/normalize, user data, release) run against XercesDOM and the reference DOM in lock step: the exception raised must be one the W3C text allows and leave the tree unchanged, '
             'return values, invariants (sibling ring, parents, owner flags, attribute order, document element) and the tree must agree after every operation.',
        note='Trusted: the reference DOM. Where DOM leaves a choice open (renameNode, replaceWholeText, insertBefore(x,x)) the implementation is followed or the script stops being compared (counted).'),
    'C14': dict(
        category='exploration', design_ref='DESIGN.md §4 C14',
        technique='runtime monitoring: reference DOM with Range, NodeIterator, TreeWalker, live lists/maps and the ID map as oracle over scripts that keep views open across mutations; ASan+UBSan',
        text='1500 scripts x 300 operations create ranges, iterators, tree walkers, getElementsByTagName(NS) lists, attribute maps and ID lookups, mutate the tree underneath them (every C13 operation) and query the views again: '
             'boundary points, iterator reference nodes, list contents and lengths, getElementById results must equal the reference after every mutation; range content operations must leave the specified tree.',
        note='Trusted: the reference model of the traversal/range semantics (DOM L2 Traversal-Range). Ranges in detached subtrees, DocumentType as range container and TreeWalker with its current node outside the root are not decided.'),
    'C16': dict(
        category='exploration', design_ref='DESIGN.md §4 C16',
        technique='runtime monitoring: differential oracle between a grammar pool and its deserialize(serialize(.)) images (object-graph enumeration, XSModel enumeration, instance validation with PSVI) with stream class-name coverage accounting; ASan+UBSan',
        text='400 (quick) / 6400 (thorough) generated grammar pools (schemas using every serialisable component kind, import/include/redefine, DTD grammars) are serialised, restored, serialised and restored again; '
             'the enumerated object graphs (before and after use), the XSModel seen through the public API and the validation results (events, error codes and positions, PSVI) of valid and mutated instances must be identical for the '
             'original and both restored pools; a patched serialisation level must be refused with XSerializationException; all 53 nameable XSerializable classes must occur in the streams of a run.',
        note='Trusted: the driver enumeration of grammar internals (a field it does not print is not compared). Synthetic annotations and PSVI on locked pools are exercised by pinned witnesses only (known findings).'),
}

NOT_YET = 'check not built yet (work in progress; see DESIGN.md section 9 build order)'


def main():
    hooks = subprocess.run(['git', '-C', '/repo', 'log', '--format=%H %s'], capture_output=True, text=True).stdout.splitlines()
    hook_commits = [l.split()[0] for l in hooks if 'verif hooks' in l]
    m = {
        'version': 1,
        'setup_cmd': './xv setup',
        'hooks': {
            'guard': 'XERCES_VERIF_HOOKS',
            'enable': './xv build <flavour> adds -DXERCES_VERIF_HOOKS to CMAKE_CXX_FLAGS of a cached out-of-tree build (${XV_CACHE:-/var/tmp/xv-cache}) of /repo\'s working tree',
            'baseline_off_cmd': 'cmake --build /repo/_build && ctest --test-dir /repo/_build -j8 --timeout 900',
            'source_commits': list(reversed(hook_commits)),
            'add_only': True,
        },
        'engines': [{'name': 'xv', 'path': 'xv', 'serves_properties': sorted(CHECKS), 'kind_free_text':
                     'python runner + C++ batch drivers linked against sanitizer builds of the library; reference models and offline checkers in python'}],
        'checks': [],
        'not_applicable': [],
        'notes': 'All checks rebuild the library incrementally from /repo\'s working tree (rsync into the cache + ninja) before running. '
                 'VERIF_SEED selects the PRNG stream. Exit 0 held / 1 violation / 2 harness failure or inconclusive.',
    }
    for p in props:
        pid = p['id']
        c = CHECKS.get(pid)
        if not c:
            m['not_applicable'].append({'property_id': pid, 'reason': NOT_YET})
            continue
        m['checks'].append({
            'property_id': pid,
            'quick_cmd': './xv check %s --tier quick' % pid,
            'thorough_cmd': './xv check %s --tier thorough' % pid,
            'evidence_file': 'evidence/%s.json' % pid,
            'replay_cmd_template': './xv replay {path}',
            'engine': 'xv',
            'level_claimed': {'category': c['category'], 'text': c['text'], 'design_ref': c['design_ref']},
            'level_note': c['note'],
            'technique': c['technique'],
        })
    json.dump(m, open(os.path.join(V, 'MANIFEST.json'), 'w'), indent=1)
    print('checks:', [c['property_id'] for c in m['checks']])


if __name__ == '__main__':
    main()
