#!/usr/bin/env python3
"""Regenerate /verif/MANIFEST.json from the table below (one entry per property that has a check)."""
import json, os, subprocess, sys

V = os.path.dirname(os.path.dirname(os.path.abspath(__file__)))
props = [json.loads(l) for l in open(os.path.join(V, 'properties.jsonl'))]

CHECKS = {
    'C03': dict(
        category='exploration', design_ref='DESIGN.md §4 C03',
        technique='runtime monitoring: reference-model oracle (infoset generator) + differential between APIs/scanners, under ASan+UBSan',
        text='Documents are rendered from random infosets with every lexical freedom the generator knows (quotes, character/entity references, CDATA, '
             'all line-end forms, XML 1.0/1.1, DTD defaults, nested entities, parameter-entity-delivered declarations, four encodings); the canonical '
             'event dump of 12 API/scanner configurations of the real library (ASan+UBSan build of the current tree) is compared with the dump computed '
             'from the infoset, pairwise between APIs, and line numbers at element starts are checked. Held on the executions observed; not a proof.',
        note='Trusted: the generator\'s infoset-to-expected-events mapping (cross-checked per document by pyexpat for XML 1.0; disagreeing documents are '
             'discarded and counted), the driver\'s dump code, clang sanitizers. Names are restricted to characters legal in both the 4th and 5th edition.'),
}

NOT_YET = 'check not built yet (work in progress; see DESIGN.md section 9 build order)'


def main():
    hooks = subprocess.run(['git', '-C', '/repo', 'log', '--format=%H %s'], capture_output=True, text=True).stdout.splitlines()
    hook_commits = [l.split()[0] for l in hooks if 'verif hooks' in l]
    m = {
        'version': 1,
        'setup_cmd': './xv setup',
        'hooks': {
            'guard': 'XERCES_VERIF_HOOKS',
            'enable': './xv build <flavour> adds -DXERCES_VERIF_HOOKS to CMAKE_CXX_FLAGS of a cached out-of-tree build (${XV_CACHE:-/var/tmp/xv-cache}) of /repo\'s working tree',
            'baseline_off_cmd': 'cmake --build /repo/_build && ctest --test-dir /repo/_build -j8 --timeout 900',
            'source_commits': list(reversed(hook_commits)),
            'add_only': True,
        },
        'engines': [{'name': 'xv', 'path': 'xv', 'serves_properties': sorted(CHECKS), 'kind_free_text':
                     'python runner + C++ batch drivers linked against sanitizer builds of the library; reference models and offline checkers in python'}],
        'checks': [],
        'not_applicable': [],
        'notes': 'All checks rebuild the library incrementally from /repo\'s working tree (rsync into the cache + ninja) before running. '
                 'VERIF_SEED selects the PRNG stream. Exit 0 held / 1 violation / 2 harness failure or inconclusive.',
    }
    for p in props:
        pid = p['id']
        c = CHECKS.get(pid)
        if not c:
            m['not_applicable'].append({'property_id': pid, 'reason': NOT_YET})
            continue
        m['checks'].append({
            'property_id': pid,
            'quick_cmd': './xv check %s --tier quick' % pid,
            'thorough_cmd': './xv check %s --tier thorough' % pid,
            'evidence_file': 'evidence/%s.json' % pid,
            'replay_cmd_template': './xv replay {path}',
            'engine': 'xv',
            'level_claimed': {'category': c['category'], 'text': c['text'], 'design_ref': c['design_ref']},
            'level_note': c['note'],
            'technique': c['technique'],
        })
    json.dump(m, open(os.path.join(V, 'MANIFEST.json'), 'w'), indent=1)
    print('checks:', [c['property_id'] for c in m['checks']])


if __name__ == '__main__':
    main()
