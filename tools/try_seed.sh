#!/bin/bash
# usage: try_seed.sh <worktree with seeded change applied and SEED/ dir> <check id> [more check ids]
# Confirms the seed (tests pass with it, demo fails with it / passes without), then runs our quick checks against it.
W=$1; shift
OUT=$W/SEED/confirm.log
: > $OUT
echo "== ctest with the change" | tee -a $OUT
( cd $W && cmake --build _build -j6 >/dev/null 2>&1; ctest --test-dir _build -j6 --timeout 900 2>&1 | tail -3 ) | tee -a $OUT
demo=$(ls $W/SEED/demo.cpp 2>/dev/null)
if [ -n "$demo" ]; then
  for variant in changed original; do
    if [ $variant = changed ]; then L=$W/_build/src; I="-I$W/src -I$W/_build/src"; else L=/repo/_build/src; I="-I/repo/src -I/repo/_build/src"; fi
    g++ -std=gnu++17 -O1 $I $W/SEED/demo.cpp $L/libxerces-c-4.0.so -Wl,-rpath,$L -lpthread -o /var/tmp/seed-demo-$variant 2>>$OUT
    echo "== demo on $variant library" | tee -a $OUT
    ( cd $W/SEED && timeout 600 /var/tmp/seed-demo-$variant 2>&1 | tail -4; echo "exit=${PIPESTATUS[0]}" ) | tee -a $OUT
  done
fi
for id in "$@"; do
  echo "== our check $id (quick) against the seeded tree" | tee -a $OUT
  ( cd /verif && XV_REPO=$W XV_CACHE=/var/tmp/xv-cache-seed timeout 5400 ./xv check $id --tier quick 2>&1 | grep -E "VIOLATION|KNOWN-FINDING|INCONCLUSIVE|HARNESS|done:" | cut -c1-400; echo "exit=${PIPESTATUS[0]}" ) | tee -a $OUT
done
