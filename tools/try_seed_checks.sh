#!/bin/bash
# usage: try_seed_checks.sh <worktree> <check id>...   (only our checks; the seed itself was confirmed by try_seed.sh)
W=$1; shift
OUT=$W/SEED/checks.log
: > $OUT
for id in "$@"; do
  echo "== our check $id (quick) against the seeded tree $W" | tee -a $OUT
  ( cd /verif && XV_REPO=$W XV_CACHE=/var/tmp/xv-cache-seed timeout 7200 ./xv check $id --tier quick 2>&1 | grep -E "VIOLATION|INCONCLUSIVE|HARNESS|done:" | cut -c1-400; echo "exit=${PIPESTATUS[0]}" ) | tee -a $OUT
done
