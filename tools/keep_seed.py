#!/usr/bin/env python3
"""keep_seed.py <worktree> <name> <property> <caught_by or -> "<needs>" : copy patch/demo/README into /verif/seeded/<name>/ + meta.json"""
import sys, os, shutil, json, re, glob
W, name, prop, caught, needs = sys.argv[1:6]
dst = os.path.join('/verif/seeded', name)
os.makedirs(dst, exist_ok=True)
for f in glob.glob(os.path.join(W, 'SEED', '*')):
    b = os.path.basename(f)
    if os.path.isfile(f) and (b.endswith(('.diff', '.cpp', '.sh', '.txt', '.xml', '.dtd', '.xsd')) and os.path.getsize(f) < 200000) and b not in ('confirm.log', 'checks.log'):
        shutil.copy(f, dst)
logs = ''
for l in ('confirm.log', 'checks.log'):
    p = os.path.join(W, 'SEED', l)
    if os.path.exists(p):
        logs += open(p, errors='replace').read()
ctest = re.search(r'(\d+)% tests passed, (\d+) tests failed out of (\d+)', logs)
demo = re.findall(r'== demo on (\w+) library\n(?:.*\n)*?exit=(\d+)', logs)
viol = re.findall(r'VIOLATION property=(\S+) replay=\S+ key=(\S+)', logs)
done = re.findall(r'\[(C\d+) quick seed=\d+ \+\d+s\] done: (.*)', logs)
meta = {
    'property': prop,
    'what': open(os.path.join(W, 'SEED', 'README.txt'), errors='replace').read()[:1500] if os.path.exists(os.path.join(W, 'SEED', 'README.txt')) else '',
    'needs_to_manifest': needs,
    'confirmed': {
        'ctest_with_change': ctest.group(0) if ctest else 'see README (run by the author of the seed)',
        'demo': dict((k, 'exit %s' % v) for k, v in demo),
        'how': 'tools/try_seed.sh <scratch worktree> %s : ctest in the worktree build, demo linked against the changed and against the original library, then ./xv check with XV_REPO=<worktree>' % prop,
    },
    'our_checks': {'caught_by': [] if caught == '-' else caught.split(','), 'violation_keys': sorted(set(k for p, k in viol))[:12], 'runs': ['%s: %s' % d for d in done]},
}
json.dump(meta, open(os.path.join(dst, 'meta.json'), 'w'), indent=1)
print('kept', dst, meta['our_checks'])
