#!/usr/bin/env python3
"""merge_known.py <ID>...: merge notes/<ID>.known.json proposals into known_findings.json (by id, no duplicates)"""
import json, sys, os
V = os.path.dirname(os.path.dirname(os.path.abspath(__file__)))
K = json.load(open(os.path.join(V, 'known_findings.json')))
have = set(k['id'] for k in K)
for pid in sys.argv[1:]:
    p = os.path.join(V, 'notes', pid + '.known.json')
    P = json.load(open(p))
    if isinstance(P, dict):
        P = P.get('entries') or P.get('known') or list(P.values())[0]
    n = 0
    for e in P:
        if not isinstance(e, dict) or 'key' not in e:
            continue
        e = dict(e)
        e.setdefault('property', pid)
        e.setdefault('status', 'known')
        if not str(e.get('id', '')).startswith(pid):
            e['id'] = '%s-%s' % (pid, e.get('id', n))
        if e['id'] in have:
            continue
        have.add(e['id'])
        K.append(e)
        n += 1
    print(pid, 'merged', n)
json.dump(K, open(os.path.join(V, 'known_findings.json'), 'w'), indent=1)
