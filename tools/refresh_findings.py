#!/usr/bin/env python3
"""put the table of tools/mkfindings.py between the FINDINGS markers of DESIGN.md"""
import os, re, subprocess, sys
V = os.path.dirname(os.path.dirname(os.path.abspath(__file__)))
t = subprocess.run([sys.executable, os.path.join(V, 'tools', 'mkfindings.py')], capture_output=True, text=True, check=True).stdout
p = os.path.join(V, 'DESIGN.md')
s = open(p).read()
s2 = re.sub(r'<!-- FINDINGS-BEGIN -->.*?<!-- FINDINGS-END -->', lambda m: '<!-- FINDINGS-BEGIN -->\n' + t.strip() + '\n<!-- FINDINGS-END -->', s, flags=re.S)
open(p, 'w').write(s2)
print('rows', t.count('\n') - 2)
