#!/bin/bash
# usage: reseed.sh [seed-dir-name ...]   (default: all of /verif/seeded/*)
# Regression of the monitors: applies each kept seeded defect to a scratch worktree of /repo's HEAD, runs the quick tier of
# the property's check against it (XV_REPO=<worktree>, separate cache) and records whether a violation is reported.
# The worktree and the cache are removed at the end.  Nothing is committed anywhere.
W=/var/tmp/reseed-wt
OUT=/var/tmp/reseed_summary.log
: > $OUT
git -C /repo worktree remove --force $W 2>/dev/null
git -C /repo worktree add --detach $W HEAD >/dev/null 2>&1 || exit 2
cd /verif
for d in ${@:-$(ls seeded | grep '^C')}; do
  [ -f seeded/$d/patch.diff ] || continue
  prop=${d%%-*}
  git -C $W checkout -q -- . 
  if ! git -C $W apply --3way /verif/seeded/$d/patch.diff >/var/tmp/reseed_apply.log 2>&1 && ! git -C $W apply /verif/seeded/$d/patch.diff >>/var/tmp/reseed_apply.log 2>&1; then
    echo "$d patch-does-not-apply" >> $OUT; continue
  fi
  git -C $W reset -q
  XV_REPO=$W XV_CACHE=/var/tmp/xv-cache-reseed nice ./xv check $prop --tier quick > /var/tmp/reseed_$d.log 2>&1
  rc=$?
  echo "$d exit=$rc new-violation-keys=$(grep -c VIOLATION /var/tmp/reseed_$d.log) $(grep VIOLATION /var/tmp/reseed_$d.log | head -2 | sed 's/.*key=\([^ ]*\).*/\1/' | tr '\n' ' ')" >> $OUT
done
git -C /repo worktree remove --force $W
rm -rf /var/tmp/xv-cache-reseed /var/tmp/xv-alt-replays /var/tmp/xv-alt-evidence
cat $OUT
