#!/usr/bin/env python3
"""Print the markdown table of findings (section 5 of DESIGN.md) from known_findings.json."""
import json, os
V = os.path.dirname(os.path.dirname(os.path.abspath(__file__)))
K = json.load(open(os.path.join(V, 'known_findings.json')))
print('| id | property | disposition | what fails |')
print('|---|---|---|---|')
for k in sorted(K, key=lambda k: (k['property'], k['id'])):
    disp = ('**fixed** `%s`' % k.get('fix_commit', '?')) if k['status'] == 'fixed' else '**known** (key `%s`)' % k['key'].replace('|', '\\|')
    what = k['what']
    if what.startswith('fixed:'):
        what = what.split(' ', 3)[-1]
    print('| %s | %s | %s | %s |' % (k['id'], k['property'], disp, what.replace('|', '\\|').replace('\n', ' ')))
